"""Simulation kernel: seed derivation, streams, event log, simulated clock,
process contexts and the baton-passing scheduler.

One integer decides everything: every stream is Random(H(seed, label...)),
so adding a draw in one component never perturbs another.  Nothing in here
reads a real clock or OS entropy.
"""
import hashlib
import json
import random
import threading

MASK64 = (1 << 64) - 1


def H(*parts) -> int:
    """Stable 64-bit hash of the parts (independent of PYTHONHASHSEED)."""
    h = hashlib.sha256()
    for p in parts:
        h.update(repr(p).encode('utf-8'))
        h.update(b'\x1f')
    return int.from_bytes(h.digest()[:8], 'big')


def stream(seed, *label) -> random.Random:
    return random.Random(H(seed, *label))


def canon(obj) -> str:
    """Canonical JSON text of a plain-data object."""
    return json.dumps(obj, sort_keys=True, separators=(',', ':'),
                      default=_np_default)


def _np_default(o):
    import numpy as np
    if isinstance(o, np.ndarray):
        return o.tolist()
    if isinstance(o, np.generic):
        return o.item()
    if isinstance(o, (set, frozenset)):
        return sorted(o)
    if isinstance(o, bytes):
        return o.hex()
    return repr(o)


def digest(obj) -> str:
    if isinstance(obj, bytes):
        return hashlib.sha256(obj).hexdigest()[:16]
    return hashlib.sha256(canon(obj).encode()).hexdigest()[:16]


class EventLog:
    """Append-only event log.  Its SHA-256 is the run's fingerprint."""

    def __init__(self, keep=True):
        self.events = []
        self.keep = keep
        self._h = hashlib.sha256()
        self.n = 0

    def add(self, actor, kind, detail=None):
        rec = (self.n, actor, kind, detail)
        self.n += 1
        self._h.update(canon(rec).encode())
        if self.keep:
            self.events.append(rec)
        return rec

    def fingerprint(self) -> str:
        return self._h.hexdigest()[:32]


class SimClock:
    """Virtual wall clock (seconds since an arbitrary epoch)."""

    def __init__(self, t0=1_700_000_000.0):
        self.t = float(t0)
        self.mono = 1000.0     # monotonic clock: never stepped backwards

    def now(self):
        return self.t

    def monotonic(self):
        return self.mono

    def advance(self, dt):
        """Wall clock moves by dt (a jump may be negative); the monotonic
        clock only ever moves forwards."""
        self.t += dt
        if dt > 0:
            self.mono += dt


class SimKill(BaseException):
    """The simulated process was killed (SIGKILL).  Not an Exception, so
    `except Exception` / `except KeyboardInterrupt` do not absorb it."""


class HarnessError(Exception):
    """The machinery itself misbehaved; never a verdict on panqec."""


class Proc:
    """One simulated OS process (an 'incarnation' of an entry point, or a
    worker task of the simulated cluster)."""

    def __init__(self, sim, pid, name, fault=None):
        self.sim = sim
        self.pid = pid
        self.name = name
        self.fault = fault or None     # at most one (possibly chained) fault
        self.dead = False              # killed: nothing it does reaches disk
        self.n_write = 0               # raw write events so far
        self.n_io = 0                  # all file-system events so far
        self.n_line = 0                # traced line events so far
        self.n_trial = 0               # trial boundaries so far
        self.n_entropy = 0             # unseeded default_rng() calls
        self.fired = []                # faults that actually fired
        self.trace = []                # (kind, detail) of fs events
        self.handles = []

    def __repr__(self):
        return f'<Proc {self.pid} {self.name}>'


_tls = threading.local()
_global = {'proc': None}


def set_current(proc):
    """Bind the calling thread to a simulated process."""
    _tls.proc = proc
    if threading.current_thread() is threading.main_thread():
        _global['proc'] = proc


def current():
    return getattr(_tls, 'proc', None)


class Sim:
    """State shared by all seams during one simulated run."""

    def __init__(self, seed, keep_events=True):
        self.seed = seed
        self.log = EventLog(keep=keep_events)
        self.clock = SimClock()
        self.procs = []
        self.fault_counts = {}
        self.probes = {}
        self.sched = None

    def new_proc(self, name, fault=None):
        p = Proc(self, len(self.procs), name, fault)
        self.procs.append(p)
        return p

    def count_fault(self, kind):
        self.fault_counts[kind] = self.fault_counts.get(kind, 0) + 1

    def probe(self, name, n=1):
        self.probes[name] = self.probes.get(name, 0) + n


# ---------------------------------------------------------------------------
# Baton-passing scheduler: real threads, exactly one runs at a time, the
# seeded scheduler decides who continues at every yield point.
# ---------------------------------------------------------------------------

class Task:
    def __init__(self, sched, tid, name, fn, proc, group):
        self.sched = sched
        self.tid = tid
        self.name = name
        self.fn = fn
        self.proc = proc
        self.group = group
        self.go = threading.Semaphore(0)
        self.done = False
        self.exc = None
        self.result = None
        self.waiting_on = None     # task ids this task is joined on
        self.thread = None
        self.killed = False
        self.steps = 0
        self.wake_at = None       # sleeping until this monotonic sim time


def current_task():
    return getattr(_tls, 'task', None)


class Scheduler:
    POLICIES = ('random', 'round_robin', 'run_to_completion', 'starve_one',
                'reverse')

    def __init__(self, sim, rng, policy='random', max_steps=200000):
        self.sim = sim
        self.rng = rng
        self.policy = policy
        self.tasks = []
        self.back = threading.Semaphore(0)
        self.cur = None
        self.steps = 0
        self.max_steps = max_steps
        self.switches = 0
        self.pending_preempt = []   # (step, group)
        self._starved = None
        self.hang = None
        sim.sched = self

    # -- called from the controlling (main) thread -------------------------
    def spawn(self, name, fn, proc=None, group=None):
        t = Task(self, len(self.tasks), name, fn, proc, group)
        self.tasks.append(t)
        th = threading.Thread(target=self._body, args=(t,), daemon=True,
                              name=f'sim-{t.tid}')
        t.thread = th
        th.start()
        return t

    def _body(self, t):
        t.go.acquire()
        set_current(t.proc)
        _tls.task = t
        try:
            if t.killed:
                raise SimKill()
            t.result = t.fn()
        except SimKill:
            t.exc = 'SimKill'
        except BaseException as e:   # noqa
            t.exc = e
        finally:
            t.done = True
            self.back.release()

    def runnable(self):
        out = []
        for t in self.tasks:
            if t.done:
                continue
            if t.waiting_on is not None:
                if t.killed or all(self.tasks[i].done
                                   for i in t.waiting_on):
                    t.waiting_on = None
                else:
                    continue
            if t.wake_at is not None:
                if t.killed or self.sim.clock.monotonic() >= t.wake_at:
                    t.wake_at = None
                else:
                    continue
            out.append(t)
        return out

    def sleep(self, dt):
        """Called from a task: not runnable again before the simulated
        monotonic clock has moved dt further (discrete-event time: when
        nobody else can run, the clock jumps to the earliest wake-up)."""
        t = getattr(_tls, 'task', None)
        if t is None:
            self.sim.clock.advance(max(0.0, dt))
            return
        t.wake_at = self.sim.clock.monotonic() + max(0.0, dt)
        self.yield_()

    def pick(self, cand):
        if len(cand) == 1:
            return cand[0]
        pol = self.policy
        if pol == 'random':
            return cand[self.rng.randrange(len(cand))]
        if pol == 'round_robin':
            if self.cur is None:
                return cand[0]
            later = [t for t in cand if t.tid > self.cur.tid]
            return later[0] if later else cand[0]
        if pol == 'run_to_completion':
            if self.cur in cand:
                return self.cur
            return cand[0]
        if pol == 'reverse':
            if self.cur in cand:
                return self.cur
            return cand[-1]
        if pol == 'starve_one':
            if self._starved is None:
                self._starved = self.rng.randrange(max(1, len(self.tasks)))
            others = [t for t in cand if t.tid != self._starved]
            if others:
                return others[self.rng.randrange(len(others))]
            return cand[0]
        raise HarnessError(f'unknown policy {pol}')

    def run(self, on_step=None):
        """Run until every task is done.  Returns False when the step cap is
        hit (bounded liveness failure) with self.hang describing who is
        stuck."""
        while True:
            # node pre-emption faults fire at scheduler steps
            for st, grp in list(self.pending_preempt):
                if self.steps >= st:
                    self.pending_preempt.remove((st, grp))
                    self.kill_group(grp)
            cand = self.runnable()
            if not cand:
                asleep = [t for t in self.tasks
                          if not t.done and t.wake_at is not None
                          and t.waiting_on is None]
                if asleep:
                    # nothing can run: jump the clocks to the next timer
                    nxt = min(t.wake_at for t in asleep)
                    self.sim.clock.advance(
                        max(0.0, nxt - self.sim.clock.monotonic()) + 1e-9)
                    self.sim.probe('clock_jumped_to_next_timer')
                    cand = self.runnable()
            if not cand:
                left = [t for t in self.tasks if not t.done]
                if left:
                    self.hang = ('deadlock', [t.name for t in left])
                    return False
                return True
            if self.steps >= self.max_steps:
                self.hang = ('step_cap', [t.name for t in cand])
                return False
            t = self.pick(cand)
            if t is not self.cur:
                self.switches += 1
            self.cur = t
            self.steps += 1
            t.steps += 1
            t.go.release()
            self.back.acquire()
            if on_step is not None:
                on_step(self, t)

    def kill_group(self, group):
        n = 0
        for t in self.tasks:
            if t.group == group and not t.done:
                t.killed = True
                if t.proc is not None:
                    t.proc.dead = True
                n += 1
        if n:
            self.sim.count_fault('preempt')
            self.sim.log.add('sched', 'preempt', [group, n])
        return n

    # -- called from task threads -----------------------------------------
    def yield_(self):
        t = getattr(_tls, 'task', None)
        if t is None:
            return
        self.back.release()
        t.go.acquire()
        if t.killed:
            raise SimKill()

    def join(self, tids):
        t = getattr(_tls, 'task', None)
        if t is None:
            raise HarnessError('join outside a task')
        t.waiting_on = list(tids)
        self.yield_()

    def abandon(self):
        """Release every parked thread so that it unwinds (after a hang)."""
        for t in self.tasks:
            if not t.done:
                t.killed = True
                if t.proc is not None:
                    t.proc.dead = True
        for _ in range(10 * len(self.tasks) + 10):
            left = [t for t in self.tasks if not t.done]
            if not left:
                break
            for t in left:
                t.go.release()
                self.back.acquire(timeout=5)


def yield_point():
    """Seam events call this: if a scheduler is active and we are in a task,
    hand the baton back."""
    p = current()
    if p is not None and p.sim.sched is not None:
        p.sim.sched.yield_()
