"""Seams other than the file system: OS entropy, wall clock, asynchronous
KeyboardInterrupt (line-event granularity), trial boundaries / ledger.
All are monkeypatched from outside; /repo is not edited.
"""
import datetime as _real_datetime_mod
import time as _real_time_mod
import sys
import threading

import numpy as np

from . import kernel
from .kernel import H, SimKill, current

def _repo_prefix():
    import panqec
    import os
    return os.path.dirname(os.path.abspath(panqec.__file__)) + os.sep


REPO = _repo_prefix()


def preload():
    """Import everything heavy in the parent: plans run in forked children,
    which must not pay for imports again."""
    import panqec.cli            # noqa: F401
    import panqec.simulation     # noqa: F401
    import panqec.analysis       # noqa: F401
    import panqec.decoders       # noqa: F401
    import panqec.codes          # noqa: F401
    import panqec.config         # noqa: F401
    import click.testing         # noqa: F401
    import zipfile               # noqa: F401
    import pandas                # noqa: F401


preload()

def patch_everywhere(real, replacement, prefix='panqec'):
    """Replace every module-level binding of `real` in the modules of the
    package under test (however it was imported: `import x`, `from x import
    y`, re-exports).  Returns the list of (module, name) patched, for undo."""
    import sys as _sys
    done = []
    for mname, mod in list(_sys.modules.items()):
        if mod is None or not (mname == prefix or
                               mname.startswith(prefix + '.')):
            continue
        try:
            items = list(vars(mod).items())
        except TypeError:
            continue
        for name, val in items:
            if val is real:
                setattr(mod, name, replacement)
                done.append((mod, name))
    return done


def unpatch(done, real):
    for mod, name in done:
        setattr(mod, name, real)


# ---------------------------------------------------------------------------
# entropy
# ---------------------------------------------------------------------------
_real_default_rng = np.random.default_rng


def _sim_default_rng(seed=None):
    proc = current()
    if seed is None and proc is not None:
        k = proc.n_entropy
        proc.n_entropy += 1
        s = H(proc.sim.seed, 'entropy', proc.pid, k)
        return np.random.Generator(np.random.PCG64(s))
    return _real_default_rng(seed)


def install_entropy(seed=0):
    """OS entropy behind the seam; the two process-global generators
    (module `random`, numpy's legacy global state) are seeded from the plan
    seed so that code which (wrongly) draws from them is still replayable -
    the twin / fresh-object oracles, which run in another simulated process,
    see different draws and report it."""
    import random as _random
    np.random.default_rng = _sim_default_rng
    _entropy_patches[:] = patch_everywhere(_real_default_rng,
                                           _sim_default_rng)
    _random.seed(H(seed, 'global-random'))
    np.random.seed(H(seed, 'global-numpy') & 0xffffffff)
    # random file names (tempfile.mkstemp / NamedTemporaryFile) and uuid4
    # asked for by a simulated process come from its own seeded stream
    import tempfile as _tempfile
    import uuid as _uuid
    _tempfile._name_sequence = _SeededNames(_tempfile._RandomNameSequence())
    _uuid.uuid4 = _sim_uuid4
    _uuid_patches[:] = patch_everywhere(_real_uuid4, _sim_uuid4)


_entropy_patches = []
_uuid_patches = []
import uuid as _uuid_mod      # noqa: E402
_real_uuid4 = _uuid_mod.uuid4


def _proc_random(proc, label):
    import random as _random
    k = proc.__dict__.setdefault('n_' + label, 0)
    proc.__dict__['n_' + label] = k + 1
    return _random.Random(H(proc.sim.seed, label, proc.pid, k))


class _SeededNames:
    """tempfile's candidate-name iterator: seeded for simulated processes,
    the real thing for the machinery itself."""
    characters = "abcdefghijklmnopqrstuvwxyz0123456789_"

    def __init__(self, real):
        self._real = real

    def __iter__(self):
        return self

    def __next__(self):
        proc = current()
        if proc is None:
            return next(self._real)
        r = _proc_random(proc, 'tmpname')
        return ''.join(r.choices(self.characters, k=8))


def _sim_uuid4():
    proc = current()
    if proc is None:
        return _real_uuid4()
    return _uuid_mod.UUID(int=_proc_random(proc, 'uuid').getrandbits(128),
                          version=4)


def uninstall_entropy():
    import tempfile as _tempfile
    np.random.default_rng = _real_default_rng
    unpatch(_entropy_patches, _real_default_rng)
    del _entropy_patches[:]
    _tempfile._name_sequence = None
    _uuid_mod.uuid4 = _real_uuid4
    unpatch(_uuid_patches, _real_uuid4)
    del _uuid_patches[:]


# ---------------------------------------------------------------------------
# wall clock: panqec.simulation._base_simulation.datetime
# ---------------------------------------------------------------------------
class _SimDatetimeClass:
    """Stands in for the class datetime.datetime; only now() is simulated."""

    def __init__(self, getclock):
        self._getclock = getclock

    def now(self, tz=None):
        proc = current()
        clock = self._getclock()
        if clock is None:
            return _real_datetime_mod.datetime.now(tz)
        return _real_datetime_mod.datetime.fromtimestamp(
            clock.now(), _real_datetime_mod.timezone.utc
        ).replace(tzinfo=None)

    def __getattr__(self, name):
        return getattr(_real_datetime_mod.datetime, name)


class _SimDatetimeModule:
    def __init__(self, getclock):
        self.datetime = _SimDatetimeClass(getclock)

    def __getattr__(self, name):
        return getattr(_real_datetime_mod, name)


_clock_holder = {'clock': None}


class _SimTimeModule:
    """Stands in for the module `time` inside gzip (header mtime)."""

    def time(self):
        clock = _clock_holder['clock']
        if clock is None:
            return _real_time_mod.time()
        return clock.now()

    def monotonic(self):
        clock = _clock_holder['clock']
        if clock is None:
            return _real_time_mod.monotonic()
        return clock.monotonic()

    perf_counter = monotonic

    def sleep(self, dt):
        """No real sleeping inside a simulation: the simulated clocks move
        and the scheduler may run somebody else (polling loops, back-off)."""
        clock = _clock_holder['clock']
        if clock is None:
            return _real_time_mod.sleep(dt)
        proc = current()
        if proc is not None and proc.dead:
            raise SimKill()
        if proc is not None:
            proc.sim.probe('simulated_sleep')
        sched = proc.sim.sched if proc is not None else None
        if sched is not None and kernel.current_task() is not None:
            sched.sleep(float(dt))
        else:
            clock.advance(max(0.0, float(dt)))

    def __getattr__(self, name):
        return getattr(_real_time_mod, name)


_clock_undo = []


def install_clock(clock):
    """Wall clock of the simulation package, however it is imported
    (`import datetime`, `from datetime import datetime`, `import time`), and
    gzip's header time stamp."""
    import gzip
    _clock_holder['clock'] = clock
    getc = lambda: _clock_holder['clock']     # noqa: E731
    shim_mod = _SimDatetimeModule(getc)
    pre = 'panqec'
    del _clock_undo[:]
    tm = _SimTimeModule()
    for real, repl in ((_real_datetime_mod, shim_mod),
                       (_real_datetime_mod.datetime, shim_mod.datetime),
                       (_real_time_mod, tm),
                       (_real_time_mod.time, tm.time),
                       (_real_time_mod.sleep, tm.sleep),
                       (_real_time_mod.monotonic, tm.monotonic),
                       (_real_time_mod.perf_counter, tm.perf_counter)):
        _clock_undo.append((patch_everywhere(real, repl, prefix=pre), real))
    gzip.time = _SimTimeModule()


def uninstall_clock():
    import gzip
    _clock_holder['clock'] = None
    for done, real in _clock_undo:
        unpatch(done, real)
    del _clock_undo[:]
    gzip.time = _real_time_mod


# ---------------------------------------------------------------------------
# asynchronous KeyboardInterrupt at the j-th traced line event
# ---------------------------------------------------------------------------
# every Python line of the package under test is a point where Ctrl-C can
# arrive (code classes' lazy builders, decoders, noise models included)
TRACED = (REPO,)
# the batch / simulation layer proper (sampled densely for interrupts)
CORE = (REPO + 'simulation/', REPO + 'utils.py')


def _traced_file(fn):
    return fn.startswith(TRACED[0])


class LineTracer:
    """Counts 'line' events inside panqec/simulation/* and panqec/utils.py for
    one process and raises KeyboardInterrupt at a chosen one."""

    def __init__(self, proc, record=False):
        self.proc = proc
        self.record = record
        self.where = []
        self.first = {}      # code object -> index of its first traced line
        self.core = []       # indices of lines in simulation/ and utils.py

    def _global(self, frame, event, arg):
        if _traced_file(frame.f_code.co_filename):
            return self._local
        return None

    def _local(self, frame, event, arg):
        if event != 'line':
            return self._local
        proc = self.proc
        if proc.dead:
            return self._local
        idx = proc.n_line
        proc.n_line += 1
        if self.record:
            self.first.setdefault(frame.f_code, idx)
            fn = frame.f_code.co_filename
            if fn.startswith(CORE[0]) or fn == CORE[1]:
                self.core.append(idx)
        f = proc.fault
        if f and f.get('at') == 'line' and f.get('event') == idx:
            from .sandbox import arm_next
            arm_next(proc, f)
            loc = [frame.f_code.co_filename[len(REPO):], frame.f_lineno]
            proc.fired.append({'kind': f['kind'], 'at': 'line',
                               'event': idx, 'where': loc})
            proc.sim.count_fault(f['kind'] + ':line')
            if f.get('aim'):
                proc.sim.probe('interrupt_aimed_at_' + f['aim'])
            proc.sim.log.add(proc.pid, 'line-' + f['kind'], loc)
            if f['kind'] == 'ki':
                # (CPython unsets the trace function when it raises, so a
                # chained fault must be of another kind: io / trial)
                raise KeyboardInterrupt()
            if f['kind'] == 'kill':
                from .sandbox import kill
                kill(proc)
        return self._local

    def start(self):
        sys.settrace(self._global)

    def stop(self):
        sys.settrace(None)


# ---------------------------------------------------------------------------
# trial ledger: wrap run_once (module-global lookup in _direct_simulation)
# ---------------------------------------------------------------------------
def identity_of(code, error_model, decoder, error_rate):
    return kernel.canon({
        'code': {'name': code.id, 'parameters': code.params},
        'error_model': {'name': error_model.id,
                        'parameters': error_model.params},
        'decoder': {'name': decoder.id, 'parameters': decoder.params},
        'error_rate': error_rate,
    })


def identity_of_inputs(inputs):
    """Identity of a record found in a results file."""
    try:
        return kernel.canon({
            'code': {'name': inputs['code']['name'],
                     'parameters': inputs['code']['parameters']},
            'error_model': {'name': inputs['error_model']['name'],
                            'parameters': inputs['error_model']['parameters']},
            'decoder': {'name': inputs['decoder']['name'],
                        'parameters': inputs['decoder']['parameters']},
            'error_rate': inputs['error_rate'],
        })
    except (KeyError, TypeError):
        return 'malformed:' + kernel.canon(inputs)


def trial_payload(shot):
    return (
        [int(x) for x in np.asarray(shot['effective_error']).ravel()],
        bool(shot['success']),
        bool(shot['codespace']),
    )


class Ledger:
    """Single-copy log of every trial executed, per process and identity."""

    def __init__(self, sim, keep_shots=False, trial_dt=None, on_trial=None,
                 before_trial=None):
        self.sim = sim
        self.by_proc = {}      # pid -> identity -> [payload]
        self.keep_shots = keep_shots
        self.shots = []
        self.trial_dt = trial_dt
        self.on_trial = on_trial
        self.before_trial = before_trial
        self._real = None

    def executed(self, pid, ident):
        return self.by_proc.get(pid, {}).get(ident, [])

    def install(self):
        import panqec.simulation._direct_simulation as ds
        self._real = ds.run_once
        real = self._real
        ledger = self

        def run_once(code, error_model, decoder, error_rate, rng=None):
            proc = current()
            if proc is not None and proc.dead:
                raise SimKill()
            if proc is not None and ledger.before_trial is not None:
                ledger.before_trial(proc)
            shot = real(code, error_model, decoder, error_rate, rng=rng)
            if proc is None:
                return shot
            ident = identity_of(code, error_model, decoder, error_rate)
            ledger.n_calls = getattr(ledger, 'n_calls', 0) + 1
            ledger.by_proc.setdefault(proc.pid, {}).setdefault(
                ident, []).append(trial_payload(shot))
            if ledger.keep_shots:
                ledger.shots.append((proc.pid, ident, shot))
            proc.sim.log.add(proc.pid, 'trial',
                             kernel.digest([ident, trial_payload(shot)]))
            if ledger.trial_dt is not None:
                proc.sim.clock.advance(ledger.trial_dt(proc))
            if ledger.on_trial is not None:
                ledger.on_trial(proc, ident, shot)
            return shot

        ds.run_once = run_once
        self._patched = patch_everywhere(real, run_once)
        self.n_calls = 0

    def uninstall(self):
        import panqec.simulation._direct_simulation as ds
        if self._real is not None:
            ds.run_once = self._real
            unpatch(getattr(self, '_patched', []), self._real)
            self._real = None


def trial_boundary(proc):
    """Called between trials of a batch (through the progress= iterable).
    A kill may land here and the scheduler may switch."""
    if proc is None:
        return
    if proc.dead:
        raise SimKill()
    idx = proc.n_trial
    proc.n_trial += 1
    f = proc.fault
    if f and f.get('at') == 'trial' and f.get('event') == idx:
        from .sandbox import arm_next
        arm_next(proc, f)
        proc.fired.append({'kind': f['kind'], 'at': 'trial', 'event': idx})
        proc.sim.count_fault(f['kind'] + ':trial')
        proc.sim.log.add(proc.pid, 'trial-' + f['kind'], idx)
        if f['kind'] == 'kill':
            from .sandbox import kill
            kill(proc)
        if f['kind'] == 'ki':
            raise KeyboardInterrupt()
        if f['kind'] == 'clock_jump':
            proc.sim.clock.advance(f.get('dt', 0.0))
    kernel.yield_point()


def sim_progress(iterable=None, *a, **kw):
    """Replacement for tqdm / identity handed to BatchSimulation.run: yields
    the items and marks a trial boundary before each."""
    def gen():
        for x in iterable:
            trial_boundary(current())
            yield x
        trial_boundary(current())
    return gen()


def clear_caches():
    """What a real new process starts with (as far as the code offers a
    way to reset it)."""
    from panqec.error_models import PauliErrorModel
    cc = getattr(PauliErrorModel.probability_distribution, 'cache_clear',
                 None)
    if cc is not None:
        cc()
