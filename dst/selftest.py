"""Determinism self-test on a large sample: for every claimed property, N plan
seeds are executed (a) in a 16-worker fork pool, (b) in a 3-worker pool, and
(c) in fresh interpreters under other PYTHONHASHSEED values; all fingerprints
(SHA-256 of the event log incl. file digests / outcomes) must agree.
Usage: ./check selftest [--n 200] [--seed S]
"""
import importlib
import json
import os
import subprocess
import sys
import time

from . import runner

VERIF = os.path.dirname(os.path.dirname(os.path.abspath(__file__)))


def _fp(job):
    mod = importlib.import_module(job[0])
    return [job[2], mod.execute(job[1])['fingerprint']]


def main(n, seed):
    from dst.main import CHECKS
    t0 = time.time()
    bad = 0
    report = {}
    for prop, modname in sorted(CHECKS.items()):
        with runner.quiet():
            mod = importlib.import_module(modname)
        plans = mod.determinism_plans(seed + 7919, n)
        jobs = [(modname, p, i) for i, p in enumerate(plans)]
        # (c) fresh interpreters, other hash seeds, started first
        procs = []
        chunk = max(1, (len(plans) + 5) // 6)
        for ci in range(0, len(plans), chunk):
            path = f'/dev/shm/dst-selftest-{os.getpid()}-{prop}-{ci}.json'
            with open(path, 'w') as f:
                json.dump(plans[ci:ci + chunk], f)
            env = dict(os.environ, PYTHONHASHSEED=str(1000 + ci),
                       DST_NO_REEXEC='1')
            procs.append((ci, path, subprocess.Popen(
                [sys.executable, os.path.join(VERIF, 'dst', 'main.py'), prop,
                 '--fingerprints', path], env=env, stdout=subprocess.PIPE,
                stderr=subprocess.DEVNULL, text=True)))
        ra, ea, _ = runner.run_pool(_fp, jobs, nproc=10, job_timeout=900)
        rb, eb, _ = runner.run_pool(_fp, jobs, nproc=3, job_timeout=900)
        fa = dict(map(tuple, ra))
        fb = dict(map(tuple, rb))
        fc = {}
        for ci, path, p in procs:
            so, _ = p.communicate(timeout=3600)
            os.remove(path)
            for line in so.splitlines():
                if line.startswith('FINGERPRINTS '):
                    for j, v in enumerate(json.loads(line[13:])):
                        fc[ci + j] = v
        mism = [i for i in range(len(plans))
                if not (fa.get(i) == fb.get(i) == fc.get(i)
                        and fa.get(i) is not None)]
        report[prop] = {'plans': len(plans), 'mismatches': len(mism),
                        'errors': len(ea) + len(eb),
                        'distinct_fingerprints': len(set(fa.values()))}
        print(prop, report[prop], flush=True)
        if mism:
            print('  first mismatching plan index', mism[0],
                  fa.get(mism[0]), fb.get(mism[0]), fc.get(mism[0]))
        bad += len(mism) + len(ea) + len(eb)
    out = os.path.join(VERIF, 'evidence', 'selftest_determinism.json')
    with open(out, 'w') as f:
        json.dump({'n_per_property': n, 'seed': seed, 'report': report,
                   'wall_s': round(time.time() - t0, 1)}, f, indent=1)
    print('selftest', 'OK' if not bad else 'FAILED',
          f'wall={time.time() - t0:.0f}s')
    return 0 if not bad else 2
