"""Launcher-side driver.  Usage (through /verif/check):

    main.py <ID> [--tier quick|thorough] [--replay PATH] [--seed N]
    main.py <ID> --fingerprints FILE     (internal: determinism self-test)
    main.py selftest [--n N]
"""
import argparse
import importlib
import json
import os
import subprocess
import sys
import time

VERIF = os.path.dirname(os.path.dirname(os.path.abspath(__file__)))
if VERIF not in sys.path:
    sys.path.insert(0, VERIF)

if os.environ.get('PYTHONHASHSEED') is None and \
        not os.environ.get('DST_NO_REEXEC'):
    env = dict(os.environ, PYTHONHASHSEED='0', OMP_NUM_THREADS='1',
               DST_NO_REEXEC='1')
    os.execve(sys.executable, [sys.executable] + sys.argv, env)

os.environ.setdefault('OMP_NUM_THREADS', '1')
os.environ.setdefault('MPLBACKEND', 'Agg')

from dst import runner                     # noqa: E402
from dst.kernel import canon, digest, HarnessError   # noqa: E402

CHECKS = {
    'C06': 'checks.c06', 'C08': 'checks.c08', 'C10': 'checks.c10',
    'C11': 'checks.c11', 'C12': 'checks.c12', 'C14': 'checks.c14',
    'C15': 'checks.c15',
}


def load(prop):
    with runner.quiet():
        return importlib.import_module(CHECKS[prop])


def _excepthook(tp, val, tb):
    import traceback
    print('HARNESS-ERROR uncaught exception\n' +
          ''.join(traceback.format_exception(tp, val, tb)), file=sys.stderr)
    os._exit(2)


sys.excepthook = _excepthook


def _exec_fp(args):
    mod, plan = args
    return digest(importlib.import_module(mod).execute(plan)['fingerprint'])


def fresh_fingerprints(prop, plans, hashseed):
    """Fingerprints of the plans computed in a fresh interpreter under
    another hash seed."""
    path = os.path.join('/dev/shm', f'dst-fp-{os.getpid()}-{prop}.json')
    with open(path, 'w') as f:
        json.dump(plans, f)
    env = dict(os.environ, PYTHONHASHSEED=str(hashseed), DST_NO_REEXEC='1')
    p = subprocess.Popen(
        [sys.executable, os.path.abspath(__file__), prop,
         '--fingerprints', path], env=env, stdout=subprocess.PIPE,
        stderr=subprocess.PIPE, text=True)
    return p, path


def cmd_fingerprints(prop, path):
    mod = load(prop)
    with open(path) as f:
        plans = json.load(f)
    out = []
    with runner.quiet():
        for p in plans:
            out.append(mod.execute(p)['fingerprint'])
    print('FINGERPRINTS ' + json.dumps(out))
    return 0


def cmd_replay(prop, path, verify=True):
    mod = load(prop)
    with open(path) as f:
        doc = json.load(f)
    plan, want = doc['plan'], doc['violation']
    with runner.quiet():
        o = mod.execute(plan)
    got = [v for v in o['violations'] if canon(v) == canon(want)]
    print(f"replay {path}: fingerprint={o['fingerprint']} "
          f"violations={len(o['violations'])}")
    if got:
        print(f"VIOLATION property={prop} replay={path} "
              f"digest={digest(want)}")
        print('  ' + canon(want)[:800])
        return 1
    same_cls = [v for v in o['violations'] if v['class'] == want['class']]
    if same_cls:
        print(f"VIOLATION property={prop} replay={path} "
              f"digest={digest(same_cls[0])} (same class, different detail)")
        print('  ' + canon(same_cls[0])[:800])
        return 1
    print('replay did not reproduce the recorded violation (the tree may '
          'have been repaired since it was recorded)')
    return 0


def cmd_check(prop, tier, seed, nproc=None):
    t0 = time.time()
    mod = load(prop)
    rep = runner.Report(prop)
    jobs = mod.make_jobs(tier, seed)
    budget = mod.WALL_BUDGET[tier]
    # determinism sample, fresh interpreter part started first (overlaps)
    dplans = mod.determinism_plans(seed, 8 if tier == 'quick' else 40)
    fp_proc, fp_path = fresh_fingerprints(prop, dplans, 424242)
    agg = mod.new_aggregate()
    results, errors, skipped = runner.run_pool(
        mod.run_job, jobs, nproc=nproc, job_timeout=mod.JOB_TIMEOUT,
        wall_budget=budget, on_result=lambda r: mod.aggregate(agg, r))
    rep.harness_errors += errors
    if hasattr(mod, 'harness_problems'):
        rep.harness_errors += mod.harness_problems(agg)
    # determinism: same plan twice in this interpreter + once elsewhere
    with runner.quiet():
        fp_a = [mod.execute(p)['fingerprint'] for p in dplans]
        fp_b = [mod.execute(p)['fingerprint'] for p in dplans]
    try:
        so, se = fp_proc.communicate(timeout=900)
    except subprocess.TimeoutExpired:
        fp_proc.kill()
        so, se = '', 'timeout'
    try:
        os.remove(fp_path)
    except OSError:
        pass
    fp_c = None
    for line in so.splitlines():
        if line.startswith('FINGERPRINTS '):
            fp_c = json.loads(line[len('FINGERPRINTS '):])
    det = {'plans': len(dplans), 'same_process_equal': fp_a == fp_b,
           'fresh_interpreter_other_hashseed_equal': fp_a == fp_c}
    if not (fp_a == fp_b and fp_a == fp_c):
        if hasattr(mod, 'explains_nondeterminism') and \
                mod.explains_nondeterminism(agg['violations']):
            det['explained_by_reported_violation'] = True
            print('note: fingerprints differ between interpreters; the '
                  'reported violation shows that the code under test depends '
                  'on the interpreter hash seed')
        else:
            rep.harness_errors.append(
                f'determinism self-test failed: {det} {se[-800:]}')
    # violations
    seen = {}
    for item in agg['violations']:
        sig = mod.signature(item['plan'], item['violation'])
        k = canon(sig)
        if k in seen:
            continue
        seen[k] = item
    n_new = 0
    for k, item in sorted(seen.items()):
        sig = mod.signature(item['plan'], item['violation'])
        e = runner.match_known(rep.known, sig)
        if e is not None:
            rep.known_hit(e)
            continue
        n_new += 1
        if n_new > 5:
            continue
        with runner.quiet():
            small, n_exec = mod.shrink(item['plan'], sig)
            o = mod.execute(small)
        vs = [v for v in o['violations']
              if mod.signature(small, v) == sig]
        if not vs:
            small = item['plan']
            with runner.quiet():
                o = mod.execute(small)
            vs = [v for v in o['violations']
                  if mod.signature(small, v) == sig]
        if not vs:
            rep.harness_errors.append(
                'violation did not reproduce in the parent process: '
                + canon(item['violation'])[:500])
            continue
        path = runner.write_replay(prop, seed, small, vs[0],
                                   {'signature': sig,
                                    'shrink_executions': n_exec})
        ok, out = runner.verify_replay_fresh(prop, path)
        if ok == 'same_class':
            print(f'note: replay {path} reproduces the violation class in a '
                  'fresh interpreter, with different detail (the code under '
                  'test behaves nondeterministically)')
        if not ok:
            rep.harness_errors.append(
                f'replay {path} did not reproduce in a fresh interpreter: '
                + out)
            continue
        rep.new_violations.append((vs[0], path))
    # known findings count their occurrences
    for item in agg['violations']:
        sig = mod.signature(item['plan'], item['violation'])
        e = runner.match_known(rep.known, sig)
        if e is not None and canon(sig) not in seen:
            rep.known_hit(e)
    wall = time.time() - t0
    level, coverage, assumptions = mod.evidence(tier, agg, wall)
    coverage['determinism_sample'] = det
    coverage['jobs_skipped_for_wall_budget'] = skipped
    coverage['harness_errors'] = len(rep.harness_errors)
    runner.write_evidence(prop, tier, seed, level, coverage, wall,
                          len(rep.new_violations), assumptions)
    code = rep.finish()
    print(f"{prop} {tier}: evaluations={coverage.get('evaluations')} "
          f"distinct={coverage.get('distinct_nontrivial')} "
          f"wall={wall:.1f}s exit={code}")
    return code


def main():
    ap = argparse.ArgumentParser()
    ap.add_argument('what')
    ap.add_argument('--tier', default=os.environ.get('VERIF_TIER', 'quick'))
    ap.add_argument('--seed', type=int,
                    default=int(os.environ.get('VERIF_SEED', '0')))
    ap.add_argument('--replay')
    ap.add_argument('--no-verify', action='store_true')
    ap.add_argument('--fingerprints')
    ap.add_argument('--launchplans')
    ap.add_argument('--nproc', type=int, default=None)
    ap.add_argument('--n', type=int, default=200)
    a = ap.parse_args()
    if a.what == 'selftest':
        from dst import selftest
        return selftest.main(a.n, a.seed)
    if a.what not in CHECKS:
        print(f'unknown check {a.what}', file=sys.stderr)
        return 2
    try:
        if a.fingerprints:
            return cmd_fingerprints(a.what, a.fingerprints)
        if a.launchplans:
            mod = load(a.what)
            with open(a.launchplans) as f:
                cfgs = json.load(f)
            with runner.quiet():
                out = mod.launch_plans_here(cfgs)
            print('LAUNCHPLANS ' + json.dumps(out))
            return 0
        if a.replay:
            return cmd_replay(a.what, a.replay)
        return cmd_check(a.what, a.tier, a.seed, a.nproc)
    except HarnessError as e:
        print(f'HARNESS-ERROR {e}', file=sys.stderr)
        return 2
    except BaseException:   # noqa  a crash of the machinery is never exit 1
        import traceback
        print('HARNESS-ERROR unexpected exception\n' +
              traceback.format_exc(), file=sys.stderr)
        return 2


if __name__ == '__main__':
    sys.exit(main())
