"""File-system seam: a real directory on tmpfs whose *write path* is
instrumented.  Every raw write(), truncating open, close, rename, remove and
mkdir made by a simulated process on a path inside the sandbox is an event at
which the simulator may kill the process (leaving a chosen prefix of the bytes
on disk), raise KeyboardInterrupt, or hand the baton to another task.
"""
import builtins
import io
import os
import shutil
import tempfile

from . import kernel
from .kernel import SimKill, HarnessError, current

_real_open = builtins.open
_real_io_open = io.open
_real_replace = os.replace
_real_rename = os.rename
_real_remove = os.remove
_real_makedirs = os.makedirs
_real_exists = os.path.exists
_real_isfile = os.path.isfile
_real_isdir = os.path.isdir
_real_os_open = os.open
_real_os_write = os.write
_real_os_close = os.close
_real_link = os.link
_real_symlink = os.symlink
_real_mkdir = os.mkdir
_real_rmdir = os.rmdir
_real_truncate = os.truncate
_real_getpid = os.getpid
_real_listdir = os.listdir
_real_scandir = os.scandir


class _ScandirIter:
    """What os.scandir returns, over a list of entries in a chosen order."""

    def __init__(self, entries):
        self._it = iter(entries)

    def __iter__(self):
        return self

    def __next__(self):
        return next(self._it)

    def __enter__(self):
        return self

    def __exit__(self, *exc):
        self.close()
        return False

    def close(self):
        self._it = iter(())


def _sim_getpid():
    """Process id as seen by the package under test: the number of the
    simulated process (the real one differs from run to run and would end up
    in lock files and temporary names)."""
    proc = current()
    if proc is not None:
        import sys as _sys
        caller = _sys._getframe(1).f_globals.get('__name__', '')
        if caller == 'panqec' or caller.startswith('panqec.'):
            return 4000 + proc.pid
    return _real_getpid()

TEAR_CLASSES = ('0', '1', 'half', 'len-1', 'len')


def tear_len(tear, n):
    if isinstance(tear, int):
        return max(0, min(n, tear))
    return {'0': 0, '1': min(1, n), 'half': n // 2,
            'len-1': max(0, n - 1), 'len': n}[tear]


def arm_next(proc, f):
    """Arm the chained fault, if any.  A chained fault marked 'rel' counts
    its event index from the moment the first one fired."""
    nxt = f.get('then')
    if nxt and nxt.get('rel'):
        nxt = dict(nxt)
        nxt.pop('rel')
        base = {'io': proc.n_io, 'write': proc.n_write,
                'line': proc.n_line, 'trial': proc.n_trial}[nxt['at']]
        nxt['event'] += base
    proc.fault = nxt or None


def match_fault(proc, kind, idx):
    """Return the fault to fire at this event, if any, and consume it."""
    f = proc.fault
    if not f or proc.dead:
        return None
    if f.get('at') == kind and f.get('event') == idx:
        arm_next(proc, f)
        proc.fired.append({k: v for k, v in f.items() if k != 'then'})
        proc.sim.count_fault(f['kind'] + ':' + kind)
        return f
    return None


def fs_event(kind, path, extra=None):
    """Register a non-write file-system event of the current process.
    Returns the fault that fires here (kill), after recording it."""
    proc = current()
    if proc is None:
        return None, None
    if proc.dead:
        raise SimKill()
    idx = proc.n_io
    proc.n_io += 1
    rel = proc.sim.sandbox.rel(path)
    proc.trace.append((kind, rel, extra))
    proc.sim.log.add(proc.pid, kind, [rel, extra])
    # a fault may also be addressed as "the k-th event of this kind"
    kc = proc.__dict__.setdefault('kind_counts', {})
    k = kc.get(kind, 0)
    kc[kind] = k + 1
    f = proc.fault
    if f and not proc.dead and f.get('at') == 'kind' \
            and f.get('name') == kind and f.get('event') == k:
        arm_next(proc, f)
        proc.fired.append({kk: v for kk, v in f.items() if kk != 'then'})
        proc.sim.count_fault(f['kind'] + ':' + kind)
        return proc, f
    return proc, match_fault(proc, 'io', idx)


def kill(proc):
    if getattr(proc.sim, 'real_kill', False):
        # cross-validation mode: this is a forked child, die for real
        os._exit(137)
    proc.dead = True
    proc.sim.log.add(proc.pid, 'killed', None)
    raise SimKill()


class SimFileIO(io.FileIO):
    """Raw file whose write() is a simulator event."""

    def __init__(self, path, mode, proc, sandbox, fd=None, closefd=True):
        if fd is None:
            super().__init__(path, mode)
        else:
            # a descriptor obtained through the os.open seam (mkstemp,
            # lock files): same instrumented writes, known path
            super().__init__(fd, mode, closefd=closefd)
        self._proc = proc
        self._sb = sandbox
        self._path = path
        proc.handles.append(self)

    def write(self, b):
        proc = self._proc
        n = len(b)
        if proc.dead:
            return n            # swallowed: the process no longer exists
        idx = proc.n_write
        proc.n_write += 1
        io_idx = proc.n_io
        proc.n_io += 1
        rel = self._sb.rel(self._path)
        proc.trace.append(('write', rel, n))
        f = match_fault(proc, 'write', idx) or match_fault(proc, 'io', io_idx)
        if f is not None:
            if f['kind'] == 'kill':
                t = tear_len(f.get('tear', '0'), n)
                if t:
                    super().write(bytes(b[:t]))
                proc.sim.log.add(proc.pid, 'write-torn', [rel, n, t])
                kill(proc)
            elif f['kind'] == 'ki':
                # EINTR before any byte of this chunk is written
                proc.sim.log.add(proc.pid, 'write-ki', [rel, n])
                raise KeyboardInterrupt()
            else:
                raise HarnessError(f'bad fault at write: {f}')
        proc.sim.log.add(proc.pid, 'write', [rel, n])
        mv = memoryview(b)
        done = 0
        while done < n:
            done += super().write(mv[done:])
        kernel.yield_point()
        return n

    def close(self):
        if self.closed:
            return
        proc = self._proc
        was_write = self.writable()
        super().close()
        if proc.dead or not was_write:
            return
        p, f = fs_event('close', self._path)
        self._sb.on_durable(proc, self._path)
        if f is not None:
            if f['kind'] == 'kill':
                kill(proc)
            # a KeyboardInterrupt at close is not modelled (no Python line)
        kernel.yield_point()


class Sandbox:
    def __init__(self, sim, bufsize=8192, root=None):
        self.sim = sim
        sim.sandbox = self
        self.bufsize = bufsize
        self.root = root or tempfile.mkdtemp(prefix='dst-', dir='/dev/shm')
        self.durable_hook = None     # fn(proc, path) after close / replace
        self.installed = False

    def rel(self, path):
        p = os.path.abspath(os.fspath(path))
        if p.startswith(self.root):
            return p[len(self.root):] or '/'
        return p

    def scrub(self, text):
        """Remove the (random) sandbox directory name from a message so
        that violation records are identical across runs."""
        return str(text).replace(self.root, '<sandbox>')

    def inside(self, path):
        try:
            p = os.path.abspath(os.fspath(path))
        except TypeError:
            return False
        return p == self.root or p.startswith(self.root + os.sep)

    def path(self, *parts):
        return os.path.join(self.root, *parts)

    def on_durable(self, proc, path):
        if self.durable_hook is not None:
            self.durable_hook(proc, os.path.abspath(path))

    # -- seam implementations ---------------------------------------------
    def _open(self, file, mode='r', buffering=-1, encoding=None,
              errors=None, newline=None, closefd=True, opener=None):
        proc = current()
        fd = None
        if isinstance(file, int) and not isinstance(file, bool) \
                and proc is not None and file in getattr(self, '_fds', {}):
            fd = file
            file = self._fds[fd][1]
        if (proc is None or isinstance(file, int) or not self.inside(file)
                or not any(c in mode for c in 'wax+')):
            return _real_open(file if fd is None else fd, mode, buffering,
                              encoding, errors, newline, closefd, opener)
        if proc.dead:
            raise SimKill()
        path = os.path.abspath(os.fspath(file))
        binary = 'b' in mode
        rawmode = mode.replace('b', '').replace('t', '')
        existed = fd is not None or _real_exists(path)
        if fd is not None:
            raw = SimFileIO(path, rawmode, proc, self, fd=fd,
                            closefd=closefd)
            if closefd:
                self._fds.pop(fd, None)
        else:
            raw = SimFileIO(path, rawmode, proc, self)
        kind = 'open-fd' if fd is not None else \
            'open-trunc' if ('w' in mode and existed) else 'open'
        p, f = fs_event(kind, path, mode)
        if f is not None and f['kind'] == 'kill':
            kill(proc)
        kernel.yield_point()
        if buffering == 0:
            if not binary:
                raise ValueError("can't have unbuffered text I/O")
            return raw
        bs = self.bufsize if buffering in (-1, 1) else buffering
        if '+' in rawmode:
            buf = io.BufferedRandom(raw, bs)
        else:
            buf = io.BufferedWriter(raw, bs)
        if binary:
            return buf
        text = io.TextIOWrapper(buf, encoding or 'utf-8', errors, newline)
        text._CHUNK_SIZE = max(1, self.bufsize)
        return text

    def _replace(self, src, dst, **kw):
        return self._mv(_real_replace, 'replace', src, dst, **kw)

    def _rename(self, src, dst, **kw):
        return self._mv(_real_rename, 'rename', src, dst, **kw)

    def _mv(self, real, kind, src, dst, **kw):
        proc = current()
        if proc is None or not (self.inside(src) or self.inside(dst)):
            return real(src, dst, **kw)
        # event "before the rename": a kill here leaves dst untouched
        p, f = fs_event(kind + '-pre', dst, self.rel(src))
        if f is not None and f['kind'] == 'kill':
            kill(proc)
        real(src, dst, **kw)
        p, f = fs_event(kind, dst, self.rel(src))
        self.on_durable(proc, dst)
        if f is not None and f['kind'] == 'kill':
            kill(proc)
        kernel.yield_point()

    def _remove(self, path, **kw):
        proc = current()
        if proc is None or not self.inside(path):
            return _real_remove(path, **kw)
        p, f = fs_event('remove-pre', path)
        if f is not None and f['kind'] == 'kill':
            kill(proc)
        _real_remove(path, **kw)
        p, f = fs_event('remove', path)
        self.on_durable(proc, path)
        if f is not None and f['kind'] == 'kill':
            kill(proc)

    def _probe(self, real):
        """os.path.exists / isfile / isdir on a sandbox path: the answer is
        computed, then the scheduler may run somebody else before the caller
        acts on it (check-then-act races between nodes / workers)."""
        def probe(path):
            r = real(path)
            proc = current()
            if proc is not None and proc.sim.sched is not None \
                    and self.inside(path):
                if proc.dead:
                    raise SimKill()
                kernel.yield_point()
            return r
        return probe

    # -- directory listings -------------------------------------------------
    # The order in which a file system returns directory entries is not
    # specified.  Inside the sandbox it is a function of (seed, directory,
    # name): arbitrary, different from plan to plan, identical for every
    # node and every call of one plan, and independent of who asks (the
    # harness' own os.walk calls sort and draw nothing).  glob, os.walk,
    # pathlib and shutil are built on os.scandir, so they follow.
    def _listing_key(self, d):
        from .kernel import H
        seed = getattr(self.sim, 'seed', 0)

        def key(name):
            return (H(seed, 'listing-order', d, name), name)
        return key

    def _listdir(self, path='.'):
        names = _real_listdir(path)
        if not isinstance(path, (str, os.PathLike)) \
                or isinstance(os.fspath(path), bytes) \
                or not self.inside(path) or len(names) < 2:
            return names
        names.sort(key=self._listing_key(self.rel(path)))
        self.sim.probe('listdir_permuted')
        return names

    def _scandir(self, path='.'):
        if not isinstance(path, (str, os.PathLike)) \
                or isinstance(os.fspath(path), bytes) \
                or not self.inside(path):
            return _real_scandir(path)
        with _real_scandir(path) as it:
            entries = list(it)
        if len(entries) > 1:
            key = self._listing_key(self.rel(path))
            entries.sort(key=lambda e: key(e.name))
            self.sim.probe('listdir_permuted')
        return _ScandirIter(entries)

    # -- low-level descriptors (lock files are made this way) ---------------
    def _inside_any(self, path):
        try:
            return isinstance(path, (str, os.PathLike)) \
                and self.inside(os.fspath(path))
        except TypeError:
            return False

    def _os_open(self, path, flags, mode=0o777, *, dir_fd=None):
        proc = current()
        if proc is None or dir_fd is not None or not self._inside_any(path):
            if dir_fd is not None:
                return _real_os_open(path, flags, mode, dir_fd=dir_fd)
            return _real_os_open(path, flags, mode)
        p, f = fs_event('osopen-pre', path, flags & (os.O_CREAT | os.O_EXCL
                                                     | os.O_TRUNC))
        if f is not None and f['kind'] == 'kill':
            kill(proc)
        kernel.yield_point()
        if proc.dead:
            raise SimKill()
        fd = _real_os_open(path, flags, mode)
        st = os.fstat(fd)
        self._fds[fd] = (proc, os.fspath(path), (st.st_dev, st.st_ino))
        p, f = fs_event('osopen', path)
        self.on_durable(proc, os.fspath(path))
        if f is not None and f['kind'] == 'kill':
            kill(proc)
        return fd

    def _os_write(self, fd, data):
        ent = self._fds.get(fd)
        proc = current()
        if ent is not None:
            # (the descriptor number may have been closed behind our back,
            # e.g. through os.fdopen, and reused for another file)
            try:
                st = os.fstat(fd)
                if (st.st_dev, st.st_ino) != ent[2]:
                    ent = None
            except OSError:
                ent = None
            if ent is None:
                self._fds.pop(fd, None)
        if ent is None or proc is None:
            return _real_os_write(fd, data)
        p, f = fs_event('oswrite-pre', ent[1], len(data))
        if f is not None and f['kind'] == 'kill':
            kill(proc)
        n = _real_os_write(fd, data)
        p, f = fs_event('oswrite', ent[1], n)
        self.on_durable(proc, ent[1])
        if f is not None and f['kind'] == 'kill':
            kill(proc)
        return n

    def _os_close(self, fd):
        self._fds.pop(fd, None)
        return _real_os_close(fd)

    def _one_path(self, real, kind, which=0):
        """mkdir / rmdir / truncate (path first), link / symlink (the new
        name second): an event before and after, a kill may land on either."""
        def op(*a, **kw):
            proc = current()
            path = a[which] if len(a) > which else None
            if proc is None or not self._inside_any(path):
                return real(*a, **kw)
            p, f = fs_event(kind + '-pre', path)
            if f is not None and f['kind'] == 'kill':
                kill(proc)
            kernel.yield_point()
            if proc.dead:
                raise SimKill()
            r = real(*a, **kw)
            p, f = fs_event(kind, path)
            self.on_durable(proc, os.fspath(path))
            if f is not None and f['kind'] == 'kill':
                kill(proc)
            return r
        return op

    def _makedirs(self, name, mode=0o777, exist_ok=False):
        proc = current()
        if proc is None or not self.inside(name):
            return _real_makedirs(name, mode, exist_ok)
        if proc.dead:
            raise SimKill()
        kernel.yield_point()
        r = _real_makedirs(name, mode, exist_ok)
        p, f = fs_event('makedirs', name)
        if f is not None and f['kind'] == 'kill':
            kill(proc)
        return r

    def install(self):
        if self.installed:
            return
        builtins.open = self._open
        io.open = self._open
        os.replace = self._replace
        os.rename = self._rename
        os.remove = self._remove
        os.unlink = self._remove
        os.makedirs = self._makedirs
        os.path.exists = self._probe(_real_exists)
        os.path.isfile = self._probe(_real_isfile)
        os.path.isdir = self._probe(_real_isdir)
        self._fds = {}
        os.getpid = _sim_getpid
        os.open = self._os_open
        os.write = self._os_write
        os.close = self._os_close
        os.listdir = self._listdir
        os.scandir = self._scandir
        self._lowlevel = {
            'link': (_real_link, self._one_path(_real_link, 'link', 1)),
            'symlink': (_real_symlink,
                        self._one_path(_real_symlink, 'symlink', 1)),
            'mkdir': (_real_mkdir, self._one_path(_real_mkdir, 'mkdir')),
            'rmdir': (_real_rmdir, self._one_path(_real_rmdir, 'rmdir')),
            'truncate': (_real_truncate,
                         self._one_path(_real_truncate, 'truncate')),
        }
        for name_, (real_, repl_) in self._lowlevel.items():
            setattr(os, name_, repl_)
        # aliases the package under test may have bound at import time
        # (`_replace = os.replace`, `from os import remove`, ...)
        from . import seams as _seams
        self._alias_undo = []
        for real, repl in ((_real_open, self._open),
                           (_real_replace, self._replace),
                           (_real_rename, self._rename),
                           (_real_remove, self._remove),
                           (_real_makedirs, self._makedirs),
                           (_real_os_open, self._os_open),
                           (_real_os_write, self._os_write),
                           (_real_os_close, self._os_close),
                           (_real_listdir, self._listdir),
                           (_real_scandir, self._scandir),
                           (_real_getpid, _sim_getpid)) + tuple(
                               self._lowlevel.values()):
            self._alias_undo.append(
                (_seams.patch_everywhere(real, repl), real))
        self.installed = True

    def uninstall(self):
        if not self.installed:
            return
        builtins.open = _real_open
        io.open = _real_io_open
        os.replace = _real_replace
        os.rename = _real_rename
        os.remove = _real_remove
        os.unlink = _real_remove
        os.makedirs = _real_makedirs
        os.path.exists = _real_exists
        os.path.isfile = _real_isfile
        os.path.isdir = _real_isdir
        os.getpid = _real_getpid
        os.open = _real_os_open
        os.write = _real_os_write
        os.close = _real_os_close
        os.listdir = _real_listdir
        os.scandir = _real_scandir
        for name_, (real_, repl_) in getattr(self, '_lowlevel', {}).items():
            setattr(os, name_, real_)
        from . import seams as _seams
        for done, real in getattr(self, '_alias_undo', []):
            _seams.unpatch(done, real)
        self._alias_undo = []
        self.installed = False

    def destroy(self):
        self.uninstall()
        shutil.rmtree(self.root, ignore_errors=True)

    # -- helpers for oracles (never go through the seam) -------------------
    def read_bytes(self, path):
        try:
            with _real_open(path, 'rb') as f:
                return f.read()
        except FileNotFoundError:
            return None

    def write_bytes(self, path, data):
        _real_makedirs(os.path.dirname(path), exist_ok=True)
        with _real_open(path, 'wb') as f:
            f.write(data)

    def listing(self):
        out = []
        for d, _, files in os.walk(self.root):
            for fn in files:
                out.append(self.rel(os.path.join(d, fn)))
        return sorted(out)
