"""GF(2) reference model: operators as Python-int bitmasks built directly from
the code's coordinate dictionaries (get_stabilizer / get_logicals_x/z).
Shares no code with panqec.bpauli, panqec.bsparse or scipy.

Bit layout of an operator on n qubits: (x, z) pair of ints, bit i of x set
iff the Pauli on qubit i has an X component (X or Y), bit i of z iff it has a
Z component (Z or Y).  BSF vectors are [x_0..x_{n-1} | z_0..z_{n-1}].
"""


def popparity(v):
    return bin(v).count('1') & 1


def op_from_dict(d, qindex):
    x = z = 0
    for loc, p in d.items():
        i = qindex[tuple(loc)]
        if p in ('X', 'Y'):
            x |= 1 << i
        if p in ('Z', 'Y'):
            z |= 1 << i
        if p not in ('X', 'Y', 'Z'):
            raise ValueError(f'bad Pauli {p!r}')
    return (x, z)


def op_from_bsf(v, n):
    x = z = 0
    for i in range(n):
        if int(v[i]) & 1:
            x |= 1 << i
        if int(v[n + i]) & 1:
            z |= 1 << i
    return (x, z)


def op_from_string(s):
    x = z = 0
    for i, p in enumerate(s):
        if p in 'XY':
            x |= 1 << i
        if p in 'ZY':
            z |= 1 << i
    return (x, z)


def bsf_list(op, n):
    x, z = op
    return [(x >> i) & 1 for i in range(n)] + [(z >> i) & 1 for i in range(n)]


def sprod(a, b):
    """Symplectic product: 1 iff the operators anticommute."""
    return popparity((a[0] & b[1]) ^ (a[1] & b[0]))


def add(a, b):
    return (a[0] ^ b[0], a[1] ^ b[1])


class RefCode:
    def __init__(self, code):
        qc = [tuple(q) for q in code.qubit_coordinates]
        self.n = len(qc)
        self.qindex = {q: i for i, q in enumerate(qc)}
        if len(self.qindex) != self.n:
            raise ValueError('duplicate qubit coordinates')
        self.stabs = [op_from_dict(code.get_stabilizer(loc), self.qindex)
                      for loc in code.stabilizer_coordinates]
        self.lx = [op_from_dict(d, self.qindex)
                   for d in code.get_logicals_x()]
        self.lz = [op_from_dict(d, self.qindex)
                   for d in code.get_logicals_z()]
        self.k = len(self.lx)
        self._basis = None

    def syndrome(self, e):
        return [sprod(s, e) for s in self.stabs]

    def logical_effect(self, e):
        """First k bits: X-type action on logical qubit i (anticommutes with
        logical Z_i); second k bits: Z-type action (anticommutes with X_i)."""
        return [sprod(l, e) for l in self.lz] + [sprod(l, e) for l in self.lx]

    def _rowspace_basis(self):
        """Echelon basis of the stabilizer group as ints over 2n bits."""
        if self._basis is None:
            n = self.n
            basis = {}      # pivot bit -> vector
            for x, z in self.stabs:
                v = x | (z << n)
                while v:
                    p = v.bit_length() - 1
                    if p in basis:
                        v ^= basis[p]
                    else:
                        basis[p] = v
                        break
            self._basis = basis
        return self._basis

    def rank(self):
        return len(self._rowspace_basis())

    def in_stabilizer_group(self, e):
        basis = self._rowspace_basis()
        v = e[0] | (e[1] << self.n)
        while v:
            p = v.bit_length() - 1
            if p not in basis:
                return False
            v ^= basis[p]
        return True


def channel(p, direction, deformations):
    """Per-qubit probabilities (pI, pX, pY, pZ) of the stated i.i.d. channel;
    deformations[i] maps 'X','Y','Z' -> Pauli whose undeformed probability
    qubit i's sigma inherits (None = undeformed)."""
    rx, ry, rz = direction
    base = {'X': p * rx, 'Y': p * ry, 'Z': p * rz}
    out = []
    for d in deformations:
        if d is None:
            out.append((1 - p, base['X'], base['Y'], base['Z']))
        else:
            out.append((1 - p, base[d['X']], base[d['Y']], base[d['Z']]))
    return out
