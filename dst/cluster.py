"""Simulated cluster for `panqec run-parallel`: N node invocations of the real
click callback run as baton-passing tasks; `multiprocessing.Process` is a shim
whose start() registers a scheduled task running the real target (run_file) as
its own simulated process; join() blocks under the scheduler.  Directory
listing order, cpu_count and tqdm are seams.  Used by C14 and C15.
"""
import os

from . import kernel, seams
from .kernel import HarnessError, SimKill, current


class ProcessShim:
    """Stands in for multiprocessing.Process inside panqec.cli."""

    cluster = None    # set by Cluster.install()

    def __init__(self, group=None, target=None, name=None, args=(),
                 kwargs=None, daemon=None):
        self.target = target
        self.args = tuple(args)
        self.kwargs = dict(kwargs or {})
        self.task = None
        self.exitcode = None
        self.started = False

    def start(self):
        cl = ProcessShim.cluster
        parent = current()
        if parent is not None and parent.dead:
            raise SimKill()
        self.started = True
        rec = {'node': getattr(parent, 'node', None),
               'round': getattr(parent, 'round', None),
               'args': self.args, 'kwargs': self.kwargs, 'task': None,
               'exc': None, 'done': False}
        cl.launched.append(rec)
        cl.sim.log.add(parent.pid if parent else None, 'proc-start',
                       [cl.sim.sandbox.rel(str(a)) if isinstance(a, str)
                        else a for a in self.args])
        if cl.mode == 'args':
            rec['done'] = True
            return
        proc = cl.sim.new_proc(f'worker-{len(cl.launched)}')
        proc.node = rec['node']
        proc.round = rec['round']
        rec['proc'] = proc
        kw = dict(self.kwargs)
        if 'progress' in kw:
            kw['progress'] = seams.sim_progress

        def body():
            seams.clear_caches()
            try:
                self.target(*self.args, **kw)
            except SimKill:
                raise
            except BaseException as e:   # noqa
                rec['exc'] = [type(e).__name__, str(e)[:300]]
                raise
            finally:
                rec['done'] = True

        self.task = cl.sched.spawn(proc.name, body, proc=proc,
                                   group=rec['node'])
        rec['task'] = self.task.tid
        kernel.yield_point()

    def join(self, timeout=None):
        cl = ProcessShim.cluster
        if cl.mode == 'args' or self.task is None:
            return
        cl.sched.join([self.task.tid])

    def is_alive(self):
        return self.task is not None and not self.task.done


class MultiprocessingShim:
    Process = ProcessShim

    def __init__(self, n_cpu):
        self._n_cpu = n_cpu

    def cpu_count(self):
        return self._n_cpu

    def __getattr__(self, name):
        # anything else of the multiprocessing API is not modelled: that is
        # a limit of the simulator, never a verdict on the code under test
        raise HarnessError(
            f'multiprocessing.{name} is not modelled by the simulated '
            'cluster')


class Cluster:
    def __init__(self, sim, mode, n_cpu, listing_perm, sched=None):
        self.sim = sim
        self.mode = mode
        self.n_cpu = n_cpu
        self.listing_perm = listing_perm   # list of indices, or None
        self.sched = sched
        self.launched = []
        self._saved = None

    def _glob(self, pattern, *a, **kw):
        import glob as _g
        res = sorted(_g.glob(pattern, *a, **kw))
        perm = self.listing_perm
        if perm is not None and len(res) > 1:
            order = [i for i in perm if i < len(res)]
            order += [i for i in range(len(res)) if i not in order]
            res = [res[i] for i in order]
            self.sim.probe('listing_permuted')
        return res

    def install(self):
        """The seams are found by *object identity* in the namespaces of the
        package under test, so `import multiprocessing`, `from
        multiprocessing import Process`, `import glob` / `from glob import
        glob`, `from tqdm import tqdm` ... are all covered."""
        import glob as _globmod
        import multiprocessing as _mp
        import tqdm as _tqdmmod
        ProcessShim.cluster = self
        shim = MultiprocessingShim(self.n_cpu)
        self._undo = []
        for real, repl in (
                (_mp, shim), (_mp.Process, ProcessShim),
                (_mp.cpu_count, shim.cpu_count),
                (_globmod.glob, self._glob), (_globmod.iglob, self._glob),
                (_tqdmmod.tqdm, seams.sim_progress)):
            self._undo.append((seams.patch_everywhere(real, repl), real))
        import os as _os
        self._real_cpu = _os.cpu_count

    def uninstall(self):
        for done, real in getattr(self, '_undo', []):
            seams.unpatch(done, real)
        self._undo = []
        ProcessShim.cluster = None

    def node_call(self, data_dir, trials, n_nodes, job_idx, n_cores,
                  delete_existing=False):
        """The real run-parallel command body."""
        import panqec.cli as pcli
        return pcli.run_parallel.callback(
            data_dir=data_dir, trials=trials, n_nodes=n_nodes,
            job_idx=job_idx, n_cores=n_cores,
            delete_existing=delete_existing)
