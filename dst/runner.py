"""Common driver: fork pool with hard timeouts, evidence writer,
known-findings matching, violation reporting (shrink, write replay, verify
replay in a fresh interpreter), exit codes.

Exit codes: 0 held (possibly KNOWN-FINDING lines), 1 violation not listed in
known_findings.json, 2 harness error / timeout (never mapped to 0, never
printed as VIOLATION).
"""
import concurrent.futures as cf
import pickle
import signal
import faulthandler
import io
import json
import multiprocessing
import os
import subprocess
import sys
import time
import traceback

from .kernel import canon, digest

from .kernel import HarnessError as _HE   # noqa: E402

HarnessErrorTypes = (_HE,)
VERIF = os.path.dirname(os.path.dirname(os.path.abspath(__file__)))
# DST_OUT_DIR redirects evidence / replay output (used only by the mutant
# and seeded-change drivers, which run checks against scratch copies)
_OUT = os.environ.get('DST_OUT_DIR') or VERIF
REPLAYS = os.path.join(_OUT, 'replays')
EVIDENCE = os.path.join(_OUT, 'evidence')
KNOWN = os.path.join(VERIF, 'known_findings.json')


class Sink(io.TextIOBase):
    def write(self, s):
        return len(s)

    def flush(self):
        pass


class quiet:
    """Silence panqec's prints (process-global, so installed once per
    simulated run, not per task)."""

    def __enter__(self):
        self._o, self._e = sys.stdout, sys.stderr
        sys.stdout = Sink()
        return self

    def __exit__(self, *a):
        sys.stdout, sys.stderr = self._o, self._e


def isolated(fn, *args, timeout=1500, **kw):
    """Run fn(*args) in a forked child and return its result.  Every plan
    execution goes through here, so that process-global state of the code
    under test (module-level caches, class attributes, the global random
    module ...) always starts from the pristine post-import state: one plan
    = one simulated OS process image, whatever a pool worker ran before."""
    r, w = os.pipe()
    pid = os.fork()
    if pid == 0:
        code = 0
        try:
            os.close(r)
            signal.alarm(int(timeout))
            try:
                out = ('ok', fn(*args, **kw))
            except HarnessErrorTypes as e:
                out = ('harness', str(e))
            except BaseException:   # noqa
                out = ('error', traceback.format_exc())
            with os.fdopen(w, 'wb') as f:
                pickle.dump(out, f, protocol=pickle.HIGHEST_PROTOCOL)
        except BaseException:   # noqa
            code = 3
        finally:
            os._exit(code)
    os.close(w)
    with os.fdopen(r, 'rb') as f:
        data = f.read()
    _, st = os.waitpid(pid, 0)
    if not data:
        raise HarnessErrorTypes[0](
            f'isolated child died (status {st}) - timeout or crash')
    kind, val = pickle.loads(data)
    if kind == 'ok':
        return val
    raise HarnessErrorTypes[0](f'isolated child {kind}: {val[-1500:]}')


def _worker_init():
    faulthandler.enable()
    os.environ['OMP_NUM_THREADS'] = '1'


def _call(fn, job, tmo):
    faulthandler.dump_traceback_later(tmo, exit=True)
    try:
        with quiet():
            return ('ok', fn(job))
    except BaseException:   # noqa
        return ('error', traceback.format_exc())
    finally:
        faulthandler.cancel_dump_traceback_later()


def _stretch():
    """The wall budget is meant as an amount of work, not of wall time: when
    the machine is clearly shared with other jobs (1-minute load of at least
    1.5 per core - the check's own workers never produce that) it is
    stretched by the same factor, at most threefold, so that what a check
    explores - and hence its verdict - does not depend on who else is
    running.  Read at every submission, because the load builds up while the
    check runs."""
    try:
        per_core = os.getloadavg()[0] / (os.cpu_count() or 1)
    except OSError:
        return 1.0
    return min(3.0, per_core) if per_core >= 1.5 else 1.0


def run_pool(fn, jobs, nproc=None, job_timeout=600, wall_budget=None,
             on_result=None):
    """Run fn(job) for every job in forked workers.  Returns (results,
    errors, n_skipped).  A job that exceeds job_timeout kills its worker
    (faulthandler, exit) which surfaces as a harness error.  Jobs not started
    when wall_budget elapses are skipped (counted)."""
    nproc = nproc or min(16, os.cpu_count() or 1)
    results, errors = [], []
    t0 = time.time()
    skipped = 0
    if nproc == 1:
        for j in jobs:
            if wall_budget and time.time() - t0 > wall_budget * _stretch():
                skipped += 1
                continue
            st, r = _call(fn, j, job_timeout)
            if st == 'ok':
                results.append(r)
                if on_result:
                    on_result(r)
            else:
                errors.append(r)
        return results, errors, skipped
    ctx = multiprocessing.get_context('fork')
    jobs = list(jobs)
    with cf.ProcessPoolExecutor(nproc, mp_context=ctx,
                                initializer=_worker_init) as ex:
        pending = {}
        it = iter(jobs)
        exhausted = False
        broken = False

        def submit_more():
            nonlocal exhausted, skipped
            while not exhausted and len(pending) < 2 * nproc:
                if wall_budget and \
                        time.time() - t0 > wall_budget * _stretch():
                    skipped += sum(1 for _ in it)
                    exhausted = True
                    return
                try:
                    j = next(it)
                except StopIteration:
                    exhausted = True
                    return
                pending[ex.submit(_call, fn, j, job_timeout)] = j

        submit_more()
        while pending:
            done, _ = cf.wait(list(pending), timeout=job_timeout + 60,
                              return_when=cf.FIRST_COMPLETED)
            if not done:
                errors.append('pool stalled')
                break
            for f in done:
                pending.pop(f)
                try:
                    st, r = f.result()
                except BaseException as e:   # noqa  (BrokenProcessPool ...)
                    errors.append(f'worker died: {e!r}')
                    broken = True
                    continue
                if st == 'ok':
                    results.append(r)
                    if on_result:
                        on_result(r)
                else:
                    errors.append(r)
            if broken:
                break
            submit_more()
        if broken:
            for f in pending:
                f.cancel()
    return results, errors, skipped


# ---------------------------------------------------------------------------
# known findings
# ---------------------------------------------------------------------------
def load_known(prop):
    if not os.path.exists(KNOWN):
        return []
    with open(KNOWN) as f:
        data = json.load(f)
    return [e for e in data.get('findings', [])
            if e.get('property') == prop and e.get('status') == 'known']


def match_known(known, sig):
    """A known finding matches a violation when every key of its 'match'
    dict equals the violation's signature entry."""
    for e in known:
        m = e.get('match', {})
        if m and all(sig.get(k) == v for k, v in m.items()):
            return e
    return None


# ---------------------------------------------------------------------------
# evidence
# ---------------------------------------------------------------------------
def write_evidence(prop, tier, seed, level, coverage, wall_s, violations,
                   assumptions):
    os.makedirs(EVIDENCE, exist_ok=True)
    doc = {
        'property_id': prop, 'tier': tier, 'seed': int(seed), 'level': level,
        'coverage': coverage, 'assumptions': assumptions,
        'wall_s': round(wall_s, 2), 'violations': int(violations),
    }
    path = os.path.join(EVIDENCE, f'{prop}.json')
    tmp = path + '.tmp'
    with open(tmp, 'w') as f:
        json.dump(doc, f, indent=1, default=str)
    os.replace(tmp, path)
    return path


# ---------------------------------------------------------------------------
# replay files
# ---------------------------------------------------------------------------
def write_replay(prop, seed, plan, violation, extra=None):
    os.makedirs(REPLAYS, exist_ok=True)
    name = f"{prop}-{seed}-{digest([plan, violation.get('class')])[:8]}.json"
    path = os.path.join(REPLAYS, name)
    doc = {'property': prop, 'plan': plan, 'violation': violation}
    if extra:
        doc.update(extra)
    with open(path, 'w') as f:
        json.dump(doc, f, indent=1, default=str)
    return path


def verify_replay_fresh(prop, path, hashseed='31337'):
    """Re-execute the replay file in a fresh interpreter under another hash
    seed; it must reproduce the identical violation record (exit 1 and the
    same digest)."""
    env = dict(os.environ)
    env['PYTHONHASHSEED'] = hashseed
    env['DST_NO_REEXEC'] = '1'
    p = subprocess.run(
        [sys.executable, os.path.join(VERIF, 'dst', 'main.py'), prop,
         '--replay', path, '--no-verify'],
        env=env, capture_output=True, text=True, timeout=900)
    want = None
    with open(path) as f:
        want = digest(json.load(f)['violation'])
    out = p.stdout[-2000:] + p.stderr[-2000:]
    if p.returncode == 1 and f'digest={want}' in p.stdout:
        return True, out
    if p.returncode == 1 and 'same class, different detail' in p.stdout:
        # the code under test is itself nondeterministic (address- or
        # entropy-dependent): the violation class reproduces, the detail
        # cannot
        return 'same_class', out
    return False, out


class Report:
    """Collects the outcome of a check run and turns it into stdout lines and
    an exit code."""

    def __init__(self, prop):
        self.prop = prop
        self.known = load_known(prop)
        self.lines = []
        self.new_violations = []     # (violation, replay path)
        self.known_hits = {}         # finding id -> count
        self.harness_errors = []

    def known_hit(self, entry):
        k = entry.get('id') or canon(entry.get('match'))
        if k not in self.known_hits:
            self.known_hits[k] = [entry, 0]
        self.known_hits[k][1] += 1

    def finish(self):
        for k, (e, n) in sorted(self.known_hits.items()):
            print(f"KNOWN-FINDING: property={self.prop} {e.get('what', k)} "
                  f"[{n} occurrence(s) this run]")
        for v, path in self.new_violations:
            print(f"VIOLATION property={self.prop} replay={path}")
            print('  ' + canon(v)[:600])
        if self.harness_errors:
            for e in self.harness_errors[:5]:
                print('HARNESS-ERROR', str(e)[-3000:], file=sys.stderr)
            return 2
        return 1 if self.new_violations else 0
