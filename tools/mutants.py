#!/venv/bin/python
"""Sensitivity driver: apply each small source mutation of mutants.json to a
scratch copy of /repo/panqec under /dev/shm, run the quick check of the
property it targets against that copy (PYTHONPATH), record whether the check
reports a violation, remove the scratch copy.  /repo itself is never touched.

    tools/mutants.py [--only ID[,ID]] [--prop C12] [--jobs 2]
Writes /verif/mutants/results.json and prints a table.
"""
import argparse
import json
import os
import shutil
import subprocess
import sys
import time
from concurrent.futures import ThreadPoolExecutor

VERIF = os.path.dirname(os.path.dirname(os.path.abspath(__file__)))


def run_one(m, tier='quick', keep=False):
    sid = m['id']
    root = f'/dev/shm/mut-{sid}-{os.getpid()}'
    shutil.rmtree(root, ignore_errors=True)
    os.makedirs(root)
    t0 = time.time()
    try:
        shutil.copytree('/repo/panqec', os.path.join(root, 'panqec'),
                        ignore=shutil.ignore_patterns('__pycache__'))
        if m.get('patch'):
            pr = subprocess.run(['patch', '-p1', '-s', '-d', root, '-i',
                                 m['patch']], capture_output=True, text=True)
            if pr.returncode != 0:
                return dict(id=sid, property=m['property'], status='STALE',
                            note='patch does not apply: ' + pr.stdout[-300:])
        for ed in m.get('edits', []):
            p = os.path.join(root, ed['file'])
            s = open(p).read()
            if s.count(ed['old']) != ed.get('count', 1):
                return dict(id=sid, property=m['property'], status='STALE',
                            note=f"old text occurs {s.count(ed['old'])} "
                                 f"times in {ed['file']}")
            s = s.replace(ed['old'], ed['new'])
            open(p, 'w').write(s)
        env = dict(os.environ, PYTHONPATH=root, DST_OUT_DIR=root,
                   PYTHONHASHSEED='0', OMP_NUM_THREADS='1',
                   DST_NO_REEXEC='1', PYTHONDONTWRITEBYTECODE='1')
        p = subprocess.run(
            ['/venv/bin/python', os.path.join(VERIF, 'dst', 'main.py'),
             m['property'], '--tier', tier],
            env=env, capture_output=True, text=True, timeout=3600,
            cwd=VERIF)
        viol = [l for l in p.stdout.splitlines()
                if l.startswith('VIOLATION')]
        classes = []
        for l in p.stdout.splitlines():
            if l.startswith('  {"class"'):
                try:
                    classes.append(json.loads(l.strip())['class'])
                except Exception:
                    pass
        status = {0: 'MISSED', 1: 'CAUGHT'}.get(p.returncode, 'HARNESS')
        if status == 'CAUGHT' and not viol:
            status = 'HARNESS'
        return dict(id=sid, property=m['property'], status=status,
                    exit=p.returncode, violations=len(viol),
                    classes=sorted(set(classes)),
                    wall_s=round(time.time() - t0, 1),
                    note=m.get('note', ''),
                    tail=(p.stderr[-600:] if status == 'HARNESS' else ''))
    finally:
        if not keep:
            shutil.rmtree(root, ignore_errors=True)


def main():
    ap = argparse.ArgumentParser()
    ap.add_argument('--only')
    ap.add_argument('--prop')
    ap.add_argument('--jobs', type=int, default=1)
    ap.add_argument('--tier', default='quick')
    ap.add_argument('--check', help='run this check instead of the one of '
                                    'the property the change was written for')
    ap.add_argument('--seeded', action='store_true',
                    help='run the independent changes under /verif/seeded')
    ap.add_argument('--benign', action='store_true',
                    help='run the behaviour-preserving refactorings under '
                         '/verif/benign: every check must stay at exit 0')
    a = ap.parse_args()
    if a.seeded or a.benign:
        ms = []
        sd = os.path.join(VERIF, 'benign' if a.benign else 'seeded')
        for d in sorted(os.listdir(sd)):
            mp = os.path.join(sd, d, 'meta.json')
            if os.path.exists(mp):
                meta = json.load(open(mp))
                ms.append({'id': d, 'property': meta['property'],
                           'patch': os.path.join(sd, d, 'patch.diff'),
                           'note': meta.get('summary', '')})
    else:
        ms = json.load(open(os.path.join(VERIF, 'mutants',
                                         'mutants.json')))
    if a.only:
        ids = set(a.only.split(','))
        ms = [m for m in ms if m['id'] in ids]
    if a.prop:
        ms = [m for m in ms if m['property'] == a.prop]
    if a.check:
        ms = [dict(m, id=m['id'] + '@' + a.check, property=a.check)
              for m in ms]
    out = []
    with ThreadPoolExecutor(a.jobs) as ex:
        for r in ex.map(lambda m: run_one(m, a.tier), ms):
            out.append(r)
            print(f"{r['id']:8s} {r['property']} {r['status']:8s} "
                  f"{r.get('wall_s', '')!s:>6} {r.get('classes', '')} "
                  f"{r.get('note', '')[:60]} {r.get('tail', '')[-200:]}",
                  flush=True)
    path = os.path.join(VERIF, 'benign' if a.benign else
                        'seeded' if a.seeded else 'mutants', 'results.json')
    old = {}
    if os.path.exists(path):
        old = {r['id']: r for r in json.load(open(path))}
    for r in out:
        old[r['id']] = r
    json.dump(sorted(old.values(), key=lambda r: r['id']), open(path, 'w'),
              indent=1)
    if a.benign:
        print('alarms or harness errors on behaviour-preserving changes:',
              [r['id'] for r in out if r['status'] != 'MISSED'])
    else:
        missed = [r['id'] for r in out if r['status'] != 'CAUGHT']
        print('not caught:', missed)
    return 0


if __name__ == '__main__':
    sys.exit(main())
