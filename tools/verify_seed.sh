#!/bin/bash
# usage: verify_seed.sh <agent-worktree> <id>
set -u
src=$1; id=$2
wt=/dev/shm/vs-$id
git -C /repo worktree add --detach $wt HEAD >/dev/null 2>&1
mkdir -p $wt/seed_out
cp $src/seed_out/demo.py $wt/seed_out/demo.py
cd $wt
PYTHONPATH=$wt /venv/bin/python seed_out/demo.py >/dev/shm/vs-$id.without 2>&1; echo "demo_without=$?"
git apply $src/seed_out/patch.diff || echo APPLY_FAILED
PYTHONPATH=$wt /venv/bin/python seed_out/demo.py >/dev/shm/vs-$id.with 2>&1; echo "demo_with=$?"
tail -3 /dev/shm/vs-$id.with
PYTHONPATH=$wt /venv/bin/python -m pytest -q -n 6 -p no:cacheprovider --timeout=900 2>&1 | tail -3
cd /
git -C /repo worktree remove --force $wt
