#!/venv/bin/python
"""Automatic small mutations in the code each claimed property is anchored in.

For every target function (TARGETS) classic mutation operators are applied
line by line (relational / arithmetic / boolean operator flips, off-by-one,
min<->max, constant flips, statement deletion).  A seeded sample of the
mutants is (1) compiled, (2) run against the repository's own test suite in a
scratch copy - only *test-surviving* mutants are of interest - and (3) given
to the quick check of the property.  /repo is never touched.

    tools/automut.py --sample 120 --seed 0 [--jobs 2]
Results: /verif/mutants/auto_results.json (+ table on stdout).
"""
import argparse
import ast
import json
import os
import random
import re
import shutil
import subprocess
import sys
import time
from concurrent.futures import ThreadPoolExecutor

VERIF = os.path.dirname(os.path.dirname(os.path.abspath(__file__)))
REPO = '/repo'

TARGETS = {
    'C12': {
        'panqec/simulation/_batch_simulation.py': [
            'BatchSimulation._run', 'BatchSimulation.save_file',
            'BatchSimulation._update_file', 'BatchSimulation.save_results',
            'BatchSimulation._save_results', 'BatchSimulation.load_results'],
        'panqec/simulation/_base_simulation.py': [
            'BaseSimulation.load_results',
            'BaseSimulation._find_current_simulation',
            'BaseSimulation.load_results_from_dict',
            'BaseSimulation.get_results_to_save'],
        'panqec/utils.py': ['save_json', 'load_json'],
        'panqec/simulation/_direct_simulation.py': ['DirectSimulation._run'],
    },
    'C14': {'panqec/cli.py': ['run_parallel']},
    'C15': {
        'panqec/analysis.py': [
            'Analysis.find_files', 'Analysis.read_files',
            'Analysis.aggregate', 'Analysis.calculate_total_error_rates',
            'Analysis.calculate_word_error_rates',
            'Analysis.calculate_single_qubit_error_rates',
            'Analysis.calculate_sector_thresholds', 'read_entry',
            'count_fails', 'get_standard_error',
            'get_single_qubit_error_rate', 'get_word_error_rate'],
        'panqec/cli.py': ['merge_results'],
    },
    'C11': {
        'panqec/simulation/_direct_simulation.py': [
            'run_once', 'DirectSimulation._run',
            'DirectSimulation.get_results'],
        'panqec/error_models/_pauli_error_model.py': [
            'fast_choice', 'PauliErrorModel.generate',
            'PauliErrorModel.probability_distribution'],
        'panqec/bpauli.py': ['get_effective_error'],
    },
    'C06': {
        'panqec/decoders/belief_propagation/bposd_decoder.py': [
            'BeliefPropagationOSDDecoder.decode',
            'BeliefPropagationOSDDecoder.update_probabilities',
            'BeliefPropagationOSDDecoder.get_probabilities'],
        'panqec/decoders/matching/_matching_decoder.py': [
            'MatchingDecoder.decode'],
        'panqec/decoders/union_find/uf_decoder.py': [
            'UnionFindDecoder.decode'],
        'panqec/error_models/_base_error_model.py': [
            'BaseErrorModel.get_weights'],
    },
    'C08': {
        'panqec/codes/base/_stabilizer_code.py': ['StabilizerCode.deform'],
        'panqec/codes/surface_2d/_toric_2d_code.py': [
            'Toric2DCode.get_deformation'],
        'panqec/codes/surface_3d/_toric_3d_code.py': [
            'Toric3DCode.get_deformation'],
        'panqec/codes/surface_2d/_rotated_planar_2d_code.py': [
            'RotatedPlanar2DCode.get_deformation'],
        'panqec/error_models/_pauli_error_model.py': [
            'PauliErrorModel.probability_distribution'],
        'panqec/bpauli.py': ['apply_deformation'],
    },
    'C10': {
        'panqec/decoders/sweepmatch/_sweep_decoder_3d.py': [
            'SweepDecoder3D.flip_edge', 'SweepDecoder3D.sweep_move',
            'SweepDecoder3D.decode', 'SweepDecoder3D.get_initial_state',
            'SweepDecoder3D.get_default_direction'],
        'panqec/decoders/sweepmatch/_rotated_sweep_decoder.py': [
            'RotatedSweepDecoder3D.flip_edge',
            'RotatedSweepDecoder3D.sweep_move',
            'RotatedSweepDecoder3D.decode',
            'RotatedSweepDecoder3D.get_sweep_faces',
            'RotatedSweepDecoder3D.get_sweep_edges'],
        'panqec/codes/base/_stabilizer_code.py': ['StabilizerCode.site'],
    },
}

OPS = [
    (r' == ', ' != '), (r' != ', ' == '), (r' <= ', ' < '), (r' < ', ' <= '),
    (r' >= ', ' > '), (r' > ', ' >= '), (r' < ', ' > '),
    (r' \+ 1\b', ' - 1'), (r' - 1\b', ' + 1'), (r' \+ 1\b', ''),
    (r' - 1\b', ''), (r' and ', ' or '), (r' or ', ' and '),
    (r'\bnot ', ''), (r'\bTrue\b', 'False'), (r'\bFalse\b', 'True'),
    (r'\bmin\(', 'max('), (r'\bmax\(', 'min('), (r' % ', ' // '),
    (r' // ', ' % '), (r' \+ ', ' - '), (r' - ', ' + '), (r' \* ', ' + '),
    (r'\[:(\w+)\]', r'[\1:]'), (r'\[(\w+):\]', r'[:\1]'),
    (r'\b0\b', '1'), (r'\b1\b', '0'), (r'\b1\b', '2'),
    (r' \+= ', ' -= '), (r' \+= ', ' = '), (r'\bis None\b', 'is not None'),
    (r'\bis not None\b', 'is None'), (r'\.any\(', '.all('),
    (r'\.all\(', '.any('), (r"'X'", "'Z'"), (r"'Z'", "'X'"),
    (r'\bx_', 'z_'), (r'\bz_', 'x_'),
]


def function_ranges(path, names):
    src = open(path).read()
    tree = ast.parse(src)
    out = {}

    def visit(node, prefix):
        for ch in ast.iter_child_nodes(node):
            if isinstance(ch, ast.ClassDef):
                visit(ch, prefix + ch.name + '.')
            elif isinstance(ch, (ast.FunctionDef, ast.AsyncFunctionDef)):
                q = prefix + ch.name
                if q in names:
                    body0 = ch.body[0]
                    start = body0.lineno
                    if (isinstance(body0, ast.Expr) and isinstance(
                            getattr(body0, 'value', None), ast.Constant)
                            and isinstance(body0.value.value, str)):
                        start = body0.end_lineno + 1      # skip docstring
                    out[q] = (start, ch.end_lineno)
                visit(ch, prefix + ch.name + '.')
    visit(tree, '')
    return out


def candidates():
    cands = []
    for prop, files in TARGETS.items():
        for rel, names in files.items():
            path = os.path.join(REPO, rel)
            lines = open(path).read().split('\n')
            for q, (a, b) in function_ranges(path, set(names)).items():
                for ln in range(a, b + 1):
                    text = lines[ln - 1]
                    st = text.strip()
                    if not st or st.startswith('#') or st.startswith(
                            ('"""', "'''", 'print(', 'raise ', 'assert ')):
                        continue
                    for pat, rep in OPS:
                        for m in re.finditer(pat, text):
                            # not inside a comment / string literal (crude)
                            pre = text[:m.start()]
                            if '#' in pre or pre.count("'") % 2 or \
                                    pre.count('"') % 2:
                                if pat not in (r"'X'", r"'Z'"):
                                    continue
                            new = text[:m.start()] + re.sub(
                                pat, rep, text[m.start():m.end()]) + \
                                text[m.end():]
                            if new != text:
                                cands.append({
                                    'property': prop, 'file': rel,
                                    'function': q, 'line': ln,
                                    'old': text, 'new': new,
                                    'op': f'{pat} -> {rep}'})
                    # statement deletion
                    if re.match(r'\s+(self\.)?[\w\.\[\]\'"]+\s*(\+|-)?=[^=]',
                                text) and not st.endswith(('(', '[', '{',
                                                           ',', '\\')):
                        ind = text[:len(text) - len(text.lstrip())]
                        cands.append({
                            'property': prop, 'file': rel, 'function': q,
                            'line': ln, 'old': text, 'new': ind + 'pass',
                            'op': 'delete statement'})
    # unique
    seen, out = set(), []
    for c in cands:
        k = (c['file'], c['line'], c['new'], c['property'])
        if k not in seen:
            seen.add(k)
            out.append(c)
    return out


def run_one(c, idx, tier='quick'):
    root = f'/dev/shm/amut-{idx}-{os.getpid()}'
    shutil.rmtree(root, ignore_errors=True)
    os.makedirs(root)
    t0 = time.time()
    res = dict(c, id=f'a{idx:04d}')
    try:
        shutil.copytree(os.path.join(REPO, 'panqec'),
                        os.path.join(root, 'panqec'),
                        ignore=shutil.ignore_patterns('__pycache__'))
        for extra in ('tests', 'pytest.ini', 'setup.py'):
            src = os.path.join(REPO, extra)
            if os.path.isdir(src):
                shutil.copytree(src, os.path.join(root, extra),
                                ignore=shutil.ignore_patterns('__pycache__'))
            elif os.path.exists(src):
                shutil.copy(src, root)
        p = os.path.join(root, c['file'])
        lines = open(p).read().split('\n')
        if lines[c['line'] - 1] != c['old']:
            res['status'] = 'STALE'
            return res
        lines[c['line'] - 1] = c['new']
        open(p, 'w').write('\n'.join(lines))
        cp = subprocess.run(['/venv/bin/python', '-m', 'py_compile', p],
                            capture_output=True, text=True)
        if cp.returncode != 0:
            res['status'] = 'NO_COMPILE'
            return res
        env = dict(os.environ, PYTHONDONTWRITEBYTECODE='1')
        tp = subprocess.run(
            ['/venv/bin/python', '-m', 'pytest', '-q', '-p',
             'no:cacheprovider', '-n', '6', '--timeout=600', '-x',
             '--deselect', 'tests/decoders/belief_propagation/test_mbp.py'
             '::TestMemoryBeliefPropagationDecoder'
             '::test_decode_trivial_syndrome'],
            cwd=root, env=env, capture_output=True, text=True, timeout=1800)
        tail = tp.stdout.strip().split('\n')[-1] if tp.stdout else ''
        res['suite'] = tail[-90:]
        if tp.returncode != 0:
            res['status'] = 'KILLED_BY_TESTS'
            return res
        env = dict(os.environ, PYTHONPATH=root, DST_OUT_DIR=root,
                   PYTHONHASHSEED='0', OMP_NUM_THREADS='1',
                   DST_NO_REEXEC='1', PYTHONDONTWRITEBYTECODE='1')
        ck = subprocess.run(
            ['/venv/bin/python', os.path.join(VERIF, 'dst', 'main.py'),
             c['property'], '--tier', tier], env=env, capture_output=True,
            text=True, timeout=3600, cwd=VERIF)
        viol = [l for l in ck.stdout.splitlines()
                if l.startswith('VIOLATION')]
        classes = []
        for l in ck.stdout.splitlines():
            if l.startswith('  {"class"'):
                try:
                    classes.append(json.loads(l.strip())['class'])
                except Exception:
                    pass
        res['classes'] = sorted(set(classes))
        if ck.returncode == 1 and viol:
            res['status'] = 'CAUGHT'
        elif ck.returncode == 0:
            res['status'] = 'SURVIVED_CHECK'
        else:
            res['status'] = 'HARNESS'
            res['tail'] = ck.stderr[-500:]
        return res
    except subprocess.TimeoutExpired:
        res['status'] = 'TIMEOUT'
        return res
    finally:
        res['wall_s'] = round(time.time() - t0, 1)
        shutil.rmtree(root, ignore_errors=True)


def main():
    ap = argparse.ArgumentParser()
    ap.add_argument('--sample', type=int, default=120)
    ap.add_argument('--seed', type=int, default=0)
    ap.add_argument('--jobs', type=int, default=2)
    ap.add_argument('--prop')
    ap.add_argument('--list', action='store_true')
    a = ap.parse_args()
    cands = candidates()
    if a.prop:
        cands = [c for c in cands if c['property'] == a.prop]
    by = {}
    for c in cands:
        by.setdefault(c['property'], []).append(c)
    print('candidates per property:', {k: len(v) for k, v in by.items()})
    if a.list:
        return 0
    rng = random.Random(a.seed)
    per = max(1, a.sample // max(1, len(by)))
    pick = []
    for k in sorted(by):
        rng.shuffle(by[k])
        pick += by[k][:per]
    out = []
    path = os.path.join(VERIF, 'mutants', 'auto_results.json')

    def work(ic):
        i, c = ic
        return run_one(c, i)
    with ThreadPoolExecutor(a.jobs) as ex:
        for r in ex.map(work, list(enumerate(pick))):
            out.append(r)
            print(f"{r['id']} {r['property']} {r['status']:16s} "
                  f"{r['file'].split('/')[-1]}:{r['line']} "
                  f"[{r['op']}] {r.get('classes', '')}", flush=True)
            json.dump(out, open(path, 'w'), indent=1)
    tot = {}
    for r in out:
        tot[r['status']] = tot.get(r['status'], 0) + 1
    print('totals', tot)
    return 0


if __name__ == '__main__':
    sys.exit(main())
