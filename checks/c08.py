"""C08 - Clifford deformation is one consistent single-qubit relabelling.

The simulated system is one long-lived, mutable code object (plus the noise
models built on it) under a seeded history of deform(name, **axis) calls with
every name in deformation_names and every legal axis, interleaved with
accesses to every lazily cached property and with construction / querying of
PauliErrorModel(deformation_name=...) on that same object (whose lru_cache
key is the object).  After every operation the object is compared with a
relabelling reference model built from a *fresh undeformed* instance of the
same class and size, so the result must not depend on the path taken.
"""
import copy
import gc
import inspect
import sys

import numpy as np

from dst import kernel, seams, refmodel, runner
from dst.kernel import Sim, HarnessError, stream, canon, digest, H

PROP = 'C08'

CLASSES = {
    # class name -> candidate sizes (sizes outside the class's supported
    # family are skipped when the fresh undeformed instance itself raises)
    'Toric2DCode': [[2, 2], [3, 3], [2, 3], [4, 3], [5, 2], [4, 4]],
    'Planar2DCode': [[2, 2], [3, 3], [2, 3], [4, 3], [5, 2]],
    'RotatedPlanar2DCode': [[2, 2], [3, 3], [2, 3], [4, 3], [5, 4]],
    'Toric3DCode': [[2, 2, 2], [3, 3, 3], [2, 3, 4], [3, 2, 2]],
    'Planar3DCode': [[2, 2, 2], [3, 3, 3], [2, 3, 4], [3, 2, 2]],
    'RotatedPlanar3DCode': [[2, 2, 2], [3, 3, 3], [2, 3, 2], [4, 3, 2]],
    'RotatedToric3DCode': [[2, 2, 2], [3, 4, 3], [4, 3, 2], [4, 4, 2],
                           [3, 3, 3], [5, 6, 2]],
    'XCubeCode': [[2, 2, 2], [3, 3, 3], [2, 3, 2]],
    'Color488Code': [[2, 2], [3, 3], [2, 3]],
    'Color666ToricCode': [[2, 2], [3, 3], [2, 3]],
    'RhombicToricCode': [[2, 2, 2], [4, 4, 4], [4, 2, 2]],
    'RhombicPlanarCode': [[2, 2, 2], [3, 3, 3], [4, 4, 4], [2, 3, 2]],
    'HollowRhombicCode': [[2, 2, 2], [3, 3, 3], [4, 4, 4]],
}
PROPS = ['stabilizer_matrix', 'Hx', 'Hz', 'logicals_x', 'logicals_z',
         'x_indices', 'z_indices', 'is_css', 'n', 'k', 'd',
         'qubit_index', 'stabilizer_index', 'n_stabilizers',
         'qubit_coordinates', 'stabilizer_coordinates']
DIRS = [(1/3, 1/3, 1/3), (0.1, 0.2, 0.7), (0.0, 0.0, 1.0), (0.6, 0.3, 0.1)]


class AccessTracer:
    """Ctrl-C at the j-th traced line inside panqec/codes/* or bsparse while a
    lazily cached property is being built."""

    PREFIX = (seams.REPO + 'codes' + '/', seams.REPO + 'bsparse.py')

    def __init__(self, ki_at):
        self.ki_at = ki_at
        self.n = 0

    def _g(self, frame, event, arg):
        if frame.f_code.co_filename.startswith(self.PREFIX):
            return self._l
        return None

    def _l(self, frame, event, arg):
        if event == 'line':
            self.n += 1
            if self.n == self.ki_at:
                raise KeyboardInterrupt()
        return self._l


def code_class(name):
    import panqec.codes as pc
    return getattr(pc, name)


def legal_axes(cls):
    """Axes a class accepts for XZZX (None = takes no axis argument)."""
    sig = inspect.signature(cls.get_deformation)
    if 'deformation_axis' not in sig.parameters:
        return None, None
    default = sig.parameters['deformation_axis'].default
    axes = ['x', 'y'] if cls.dimension == 2 else ['x', 'y', 'z']
    return axes, default


# ---------------------------------------------------------------------------
# the reference model
# ---------------------------------------------------------------------------
class Model:
    """Relabelling reference built from a fresh undeformed instance."""

    def __init__(self, cname, size):
        self.cls = code_class(cname)
        self.fresh = self.cls(*size)
        f = self.fresh
        self.qc = [tuple(q) for q in f.qubit_coordinates]
        self.sc = [tuple(s) for s in f.stabilizer_coordinates]
        self.n = len(self.qc)
        self.stabs = [dict(f.get_stabilizer(loc)) for loc in self.sc]
        self.lx = [dict(d) for d in f.get_logicals_x()]
        self.lz = [dict(d) for d in f.get_logicals_z()]
        self.rc = refmodel.RefCode(f)
        self.rank0 = self.rc.rank()
        self.axes, self.default_axis = legal_axes(self.cls)
        self._d_cache = {}

    def D(self, name, kw):
        """Per-qubit relabelling for (name, kwargs): list of dicts
        {'X':..,'Y':..,'Z':..}.  XZZX and XY are defined from the statement;
        other names from the class's own table, which must be a permutation
        of {X, Y, Z}."""
        key = (name, canon(kw))
        if key in self._d_cache:
            return self._d_cache[key]
        f = self.fresh
        out = []
        if name is None:
            out = [{'X': 'X', 'Y': 'Y', 'Z': 'Z'}] * self.n
        elif name == 'XZZX':
            axis = kw.get('deformation_axis', self.default_axis)
            for q in self.qc:
                if axis is not None and f.qubit_axis(q) == axis:
                    out.append({'X': 'Z', 'Y': 'Y', 'Z': 'X'})
                else:
                    out.append({'X': 'X', 'Y': 'Y', 'Z': 'Z'})
            if axis is None:
                # class takes no axis: fall back to its own table
                out = [dict(f.get_deformation(q, name, **kw))
                       for q in self.qc]
        elif name == 'XY':
            out = [{'X': 'X', 'Y': 'Z', 'Z': 'Y'}] * self.n
        else:
            out = [dict(f.get_deformation(q, name, **kw)) for q in self.qc]
        for d in out:
            if sorted(d.keys()) != ['X', 'Y', 'Z'] or \
                    sorted(d.values()) != ['X', 'Y', 'Z']:
                raise ValueError('deformation table is not a permutation')
        self._d_cache[key] = out
        return out

    def derived_of(self, obj):
        """Derived data that must not depend on the path: classification of
        the rows into X / Z type, CSS flag and blocks, distance."""
        out = {}
        for name in ('is_css', 'n', 'k', 'd', 'n_stabilizers'):
            try:
                out[name] = int(getattr(obj, name))
            except Exception as e:
                out[name] = 'raises ' + type(e).__name__
        for name in ('x_indices', 'z_indices'):
            try:
                out[name] = [int(bool(v)) for v in
                             np.asarray(getattr(obj, name)).ravel()]
            except Exception as e:
                out[name] = 'raises ' + type(e).__name__
        for name in ('Hx', 'Hz'):
            try:
                M = getattr(obj, name)
                out[name] = digest([[int(v) % 2 for v in r]
                                    for r in np.atleast_2d(M.toarray())])
            except Exception as e:
                out[name] = 'raises ' + type(e).__name__
        return out

    def fresh_deformed_derived(self, name, kw):
        """The same derived data on a newly constructed instance on which
        nothing but deform(name, **kw) was ever called (memoised)."""
        key = ('fd', name, canon(kw))
        if key not in self._d_cache:
            f = self.cls(*[int(v) for v in self.fresh.size])
            if name is not None:
                f.deform(name, **kw)
            self._d_cache[key] = self.derived_of(f)
        return self._d_cache[key]

    def relabel(self, op, D):
        qi = self.rc.qindex
        return {loc: D[qi[tuple(loc)]][p] for loc, p in op.items()}

    def expected_ops(self, name, kw):
        D = self.D(name, kw)
        qi = self.rc.qindex
        S = [refmodel.op_from_dict(self.relabel(s, D), qi)
             for s in self.stabs]
        LX = [refmodel.op_from_dict(self.relabel(s, D), qi) for s in self.lx]
        LZ = [refmodel.op_from_dict(self.relabel(s, D), qi) for s in self.lz]
        return S, LX, LZ, D


def check_apply_deformation(model, D, S, LX, sim):
    from panqec.bpauli import apply_deformation
    key = ('apply', canon([d['X'] for d in D]))
    if key in model._d_cache:
        return None
    n = model.n
    mask = [d['X'] == 'Z' for d in D]
    H0 = model.fresh.stabilizer_matrix.toarray()
    forms = {
        'list of bool': list(mask),
        'bool ndarray': np.array(mask, dtype=bool),
        'int64 0/1 ndarray': np.array(mask, dtype=np.int64),
        'uint8 0/1 ndarray': np.array(mask, dtype=np.uint8),
    }
    for fname, form in forms.items():
        got = matrix_rows(apply_deformation(form, H0), n)
        if got != S:
            return {'class': 'apply_deformation_is_not_the_relabelling',
                    'site_set_given_as': fname, 'operand': 'matrix'}
        lx0 = model.fresh.logicals_x
        lx0 = lx0.toarray() if hasattr(lx0, 'toarray') else np.asarray(lx0)
        row = np.atleast_2d(lx0)[0]
        got1 = matrix_rows(apply_deformation(form, np.asarray(row)), n)
        if got1 != [LX[0]]:
            return {'class': 'apply_deformation_is_not_the_relabelling',
                    'site_set_given_as': fname, 'operand': 'vector'}
    sim.probe('apply_deformation_compared')
    model._d_cache[key] = True
    return None


def matrix_rows(M, n):
    """Rows of a (sparse or dense) BSF matrix as (x, z) int pairs."""
    if hasattr(M, 'toarray'):
        M = M.toarray()
    M = np.atleast_2d(np.asarray(M))
    out = []
    for r in M:
        out.append(refmodel.op_from_bsf([int(v) % 2 for v in r], n))
    return out


# ---------------------------------------------------------------------------
# plans
# ---------------------------------------------------------------------------
def deform_choices(cname):
    cls = code_class(cname)
    axes, default = legal_axes(cls)
    out = []
    for name in cls.deformation_names:
        if name == 'XZZX' and axes:
            out.append((name, {}))
            for a in axes:
                out.append((name, {'deformation_axis': a}))
        else:
            out.append((name, {}))
    return out


def gen_history(seed, cname=None, size=None):
    rng = stream(seed, 'c08')
    cname = cname or rng.choice(sorted(CLASSES))
    size = size or rng.choice(CLASSES[cname])
    choices = deform_choices(cname)
    ops = []
    for _ in range(rng.randint(2, 12)):
        r = rng.random()
        if r < 0.4:
            name, kw = rng.choice(choices)
            op = {'op': 'deform', 'name': name, 'kwargs': kw}
            if rng.random() < 0.2:
                # Ctrl-C somewhere inside deform(), caught by the caller
                op['ki_line'] = rng.choice([rng.randint(1, 12),
                                            rng.randint(1, 80),
                                            rng.randint(1, 600)])
            ops.append(op)
        elif r < 0.7:
            k = rng.randint(1, 4)
            op = {'op': 'access', 'props': rng.sample(PROPS, k)}
            if rng.random() < 0.25:
                # Ctrl-C while the (first) property is being built
                op['props'] = [rng.choice(['stabilizer_matrix', 'logicals_x',
                                           'logicals_z', 'Hx', 'Hz'])] \
                    + op['props'][1:]
                op['ki_line'] = rng.choice([rng.randint(1, 40),
                                            rng.randint(1, 400),
                                            rng.randint(1, 4000)])
            ops.append(op)
        elif r < 0.92:
            name, kw = rng.choice(choices + [(None, {})])
            ops.append({'op': 'noise', 'name': name, 'kwargs': kw,
                        'direction': list(rng.choice(DIRS)),
                        'p': rng.choice([0.05, 0.3])})
        elif r < 0.94:
            # what constructing a matching-type decoder does with a model
            ops.append({'op': 'weights', 'which': rng.randrange(8)})
        elif r < 0.97:
            ops.append({'op': 'cache_clear'})
        else:
            ops.append({'op': 'gc'})
    # always end on a deform followed by a full comparison
    name, kw = rng.choice(choices)
    ops.append({'op': 'deform', 'name': name, 'kwargs': kw})
    return {'property': PROP, 'seed': seed, 'code': cname, 'size': size,
            'ops': ops}


# ---------------------------------------------------------------------------
# execution
# ---------------------------------------------------------------------------
_model_memo = {}


def get_model(cname, size):
    k = (cname, tuple(size))
    if k not in _model_memo:
        try:
            m = Model(cname, size)
            _ = m.fresh.stabilizer_matrix, m.fresh.logicals_x
            _model_memo[k] = m
        except Exception as e:
            _model_memo[k] = ('unsupported', type(e).__name__)
    return _model_memo[k]


def execute_here(plan, keep_events=False):
    sim = Sim(plan['seed'], keep_events=keep_events)
    violations = []
    states = set()
    n_checks = [0]

    def violate(cls, detail):
        d = {'code': plan['code'], 'size': plan['size']}
        d.update(detail)
        violations.append({'class': cls, 'detail': d})

    proc = sim.new_proc('object')
    kernel.set_current(proc)
    try:
        seams.clear_caches()
        model = get_model(plan['code'], plan['size'])
        if isinstance(model, tuple):
            sim.probe('unsupported_size_' + model[1])
            return _out(sim, violations, states, 0)
        obj = model.cls(*plan['size'])
        cur = (None, {})
        hist = []
        noises = []
        dirty = False
        for oi, op in enumerate(plan['ops']):
            kind = op['op']
            sim.log.add(proc.pid, 'op', [oi, kind, op.get('name'),
                                         op.get('kwargs'), op.get('props')])
            try:
                if kind == 'deform' and op.get('ki_line') is not None:
                    tr = AccessTracer(op['ki_line'])
                    sys.settrace(tr._g)
                    interrupted = False
                    try:
                        try:
                            obj.deform(op['name'], **op['kwargs'])
                        finally:
                            sys.settrace(None)
                    except KeyboardInterrupt:
                        interrupted = True
                    if interrupted:
                        # What a half-finished deform() leaves behind is not
                        # C08's subject (its quantifier is sequences of
                        # deform calls and property accesses, not interrupt
                        # points; on the unchanged tree an interrupt between
                        # the three final attribute assignments of deform()
                        # leaves stabilizers of the new and logicals of the
                        # old deformation).  The object is judged again from
                        # the next *completed* deform() on, which must give
                        # the right result whatever happened before.
                        sim.count_fault('ki:inside_deform')
                        dirty = True
                        continue
                    cur = (op['name'], op['kwargs'])
                    hist.append([op['name'], op['kwargs']])
                    if dirty:
                        sim.probe('deform_after_interrupted_property_build')
                    dirty = False
                elif kind == 'deform':
                    obj.deform(op['name'], **op['kwargs'])
                    if dirty:
                        sim.probe('deform_after_interrupted_property_build')
                    dirty = False
                    cur = (op['name'], op['kwargs'])
                    hist.append([op['name'], op['kwargs']])
                    if len(hist) > 1:
                        sim.probe('redeform_of_deformed_object')
                elif kind == 'access':
                    tr = None
                    if op.get('ki_line') is not None:
                        tr = AccessTracer(op['ki_line'])
                        sys.settrace(tr._g)
                    try:
                        try:
                            for p in op['props']:
                                if p in ('Hx', 'Hz') and not obj.is_css:
                                    continue
                                getattr(obj, p)
                        finally:
                            if tr is not None:
                                sys.settrace(None)
                    except KeyboardInterrupt:
                        # the user catches it and goes on with the object;
                        # what a half-built lazy cache looks like until the
                        # next deform() is not C08's subject, what deform()
                        # makes of it is
                        dirty = True
                        sim.count_fault('ki:inside_property_build')
                        continue
                elif kind == 'weights':
                    if noises:
                        nm_, op_ = noises[op['which'] % len(noises)]
                        nm_.get_weights(obj, op_['p'])
                        sim.probe('get_weights_called_on_shared_model')
                elif kind == 'noise':
                    from panqec.error_models import PauliErrorModel
                    nm = PauliErrorModel(
                        *op['direction'], deformation_name=op['name'],
                        deformation_kwargs=dict(op['kwargs']))
                    noises.append((nm, op))
                elif kind == 'cache_clear':
                    seams.clear_caches()
                    sim.count_fault('cache_eviction')
                    continue
                elif kind == 'gc':
                    gc.collect()
                    continue
            except Exception as e:
                if dirty and kind in ('access', 'noise'):
                    # a half-built lazy cache (interrupted build, no deform
                    # since) may well make other accessors fail: observed on
                    # the unchanged tree, outside C08's statement, counted
                    sim.probe('access_fails_on_half_built_cache_'
                              + type(e).__name__)
                    continue
                violate('operation_raised', {
                    'op': kind, 'exc': type(e).__name__,
                    'msg': str(e)[:200], 'history': hist})
                break
            if dirty:
                continue
            try:
                bad = compare(model, obj, cur, noises, sim)
            except HarnessError:
                raise
            except Exception as e:
                # the object itself raises when asked for its operators
                bad = {'class': 'object_unusable_after_operation',
                       'exc': type(e).__name__, 'msg': str(e)[:160]}
            n_checks[0] += 1
            if bad:
                bad['history'] = hist[-4:]
                bad['after_op'] = [oi, kind]
                bad['deformation'] = [cur[0], cur[1]]
                violate(bad.pop('class'), bad)
                break
            states.add(digest([plan['code'], plan['size'], cur[0], cur[1],
                               min(len(hist), 3), kind]))
    finally:
        kernel.set_current(None)
    return _out(sim, violations, states, n_checks[0])


def _safe_compare(model, obj, cur, noises, sim):
    try:
        return compare(model, obj, cur, noises, sim)
    except HarnessError:
        raise
    except Exception as e:
        return {'class': 'object_unusable_after_operation',
                'exc': type(e).__name__, 'msg': str(e)[:160]}


def execute(plan, **kw):
    """One plan = one simulated process image: run in a forked child."""
    if plan.get('kind') == 'noise_scan':
        return runner.isolated(noise_scan_here, plan, **kw)
    return runner.isolated(execute_here, plan, **kw)


def noise_scan_here(plan, keep_events=False):
    """One deformed noise model used over a sequence of code objects that
    are created and dropped one after the other (a size / lattice scan): the
    table it returns for each must be the relabelled channel of *that* code,
    whatever was evaluated - and freed - before."""
    from panqec.error_models import PauliErrorModel
    sim = Sim(plan['seed'], keep_events=keep_events)
    violations = []
    proc = sim.new_proc('scan')
    kernel.set_current(proc)
    n_tab = 0
    try:
        seams.clear_caches()
        rx, ry, rz = plan['direction']
        p = plan['p']
        nm = PauliErrorModel(rx, ry, rz, deformation_name=plan['name'],
                             deformation_kwargs=dict(plan['kwargs']))
        base = {'X': p * rx, 'Y': p * ry, 'Z': p * rz}
        # the scan is repeated: whether a freed object's address is reused
        # depends on allocator state, several passes make it near certain
        seq = list(plan['codes']) * plan.get('passes', 3)
        for idx, (cname, size) in enumerate(seq):
            cls = code_class(cname)
            try:
                code = cls(*size)
                ref = cls(*size)        # separate instance for the oracle
                D = [dict(ref.get_deformation(tuple(q), plan['name'],
                                              **plan['kwargs']))
                     for q in ref.qubit_coordinates]
            except Exception as e:
                sim.probe('unsupported_size_' + type(e).__name__)
                continue
            try:
                pi, px, py, pz = nm.probability_distribution(code, p)
            except Exception as e:
                violations.append({'class': 'operation_raised', 'detail': {
                    'code': cname, 'size': size, 'op': 'noise_scan',
                    'exc': type(e).__name__, 'msg': str(e)[:160]}})
                break
            got = {'X': px, 'Y': py, 'Z': pz}
            bad = None
            if len(pi) != ref.n:
                bad = {'length': len(pi), 'n': ref.n}
            else:
                for i in range(ref.n):
                    for s_ in 'XYZ':
                        if abs(float(got[s_][i]) - base[D[i][s_]]) > 1e-12:
                            bad = {'qubit': i, 'pauli': s_}
                            break
                    if bad:
                        break
            n_tab += 1
            sim.log.add(proc.pid, 'scan', [idx, cname, size, bad])
            if bad:
                bad.update({'code': cname, 'size': size,
                            'position_in_scan': idx,
                            'noise_deformation': [plan['name'],
                                                  plan['kwargs']]})
                violations.append({
                    'class': 'deformed_noise_is_not_relabelled_noise',
                    'detail': bad})
                break
            del code, ref, pi, px, py, pz, got
            if plan.get('collect'):
                gc.collect()
        sim.probe('noise_scan_over_dropped_code_objects', n_tab)
    finally:
        kernel.set_current(None)
    return {'violations': violations, 'fingerprint': sim.log.fingerprint(),
            'states': [digest(['scan', plan['name'], plan['kwargs'],
                               plan['codes']])],
            'fault_counts': sim.fault_counts, 'probes': sim.probes,
            'n_checks': n_tab}


SCAN_POOL = {
    # XZZX: classes that take an axis, grouped so that equal n occurs
    'XZZX': [('Toric2DCode', [2, 5]), ('Planar2DCode', [2, 7]),
             ('RotatedPlanar2DCode', [4, 5]), ('Toric2DCode', [5, 2]),
             ('Toric2DCode', [3, 3]), ('RotatedPlanar2DCode', [3, 6]),
             ('Planar2DCode', [3, 3]), ('Toric2DCode', [2, 2]),
             ('Toric2DCode', [4, 2]), ('RotatedPlanar2DCode', [4, 4]),
             ('Toric2DCode', [2, 4]), ('Planar2DCode', [4, 2]),
             ('Toric3DCode', [2, 2, 2]), ('Planar3DCode', [2, 2, 3])],
}


def gen_noise_scan(seed):
    rng = stream(seed, 'scan')
    codes = [list(map(lambda x: x, c)) for c in rng.sample(
        SCAN_POOL['XZZX'], rng.randint(3, 7))]
    if rng.random() < 0.5:
        codes = codes + [codes[0]]
    two_d = all(len(c[1]) == 2 for c in codes)
    axes = ['x', 'y'] if two_d else ['x', 'y']
    kw = {} if rng.random() < 0.3 else {
        'deformation_axis': rng.choice(axes)}
    return {'property': PROP, 'kind': 'noise_scan', 'seed': seed,
            'name': 'XZZX', 'kwargs': kw,
            'codes': [[c[0], list(c[1])] for c in codes],
            'direction': list(rng.choice(DIRS[1:])),
            'p': rng.choice([0.05, 0.3]),
            'collect': rng.random() < 0.5}


def _out(sim, violations, states, n):
    return {'violations': violations, 'fingerprint': sim.log.fingerprint(),
            'states': sorted(states), 'fault_counts': sim.fault_counts,
            'probes': sim.probes, 'n_checks': n}


def compare(model, obj, cur, noises, sim):
    """The object's state must equal the model for its current (name, axis)
    - independent of the path taken."""
    name, kw = cur
    n = model.n
    try:
        S, LX, LZ, D = model.expected_ops(name, kw)
    except ValueError as e:
        return {'class': 'deformation_table_not_a_permutation',
                'msg': str(e)}
    # geometry is untouched
    if [tuple(q) for q in obj.qubit_coordinates] != model.qc:
        return {'class': 'qubit_coordinates_changed'}
    if [tuple(s) for s in obj.stabilizer_coordinates] != model.sc:
        return {'class': 'stabilizer_coordinates_changed'}
    if obj.n != n or obj.k != len(LX):
        return {'class': 'n_or_k_changed', 'n': obj.n, 'k': obj.k}
    # dictionaries
    qi = model.rc.qindex
    for j, loc in enumerate(model.sc):
        got = refmodel.op_from_dict(obj.get_stabilizer(loc), qi)
        if got != S[j]:
            return {'class': 'stabilizer_not_the_relabelled_original',
                    'row': j, 'via': 'get_stabilizer'}
    for tag, fn, want in (('logical_x', obj.get_logicals_x, LX),
                          ('logical_z', obj.get_logicals_z, LZ)):
        got = [refmodel.op_from_dict(d, qi) for d in fn()]
        if got != want:
            return {'class': 'logical_not_the_relabelled_original',
                    'which': tag, 'via': 'dict'}
    # matrices (lazily cached data)
    Hrows = matrix_rows(obj.stabilizer_matrix, n)
    if Hrows != S:
        bad = next((j for j, (a, b) in enumerate(zip(Hrows, S)) if a != b),
                   None)
        return {'class': 'stabilizer_not_the_relabelled_original',
                'row': bad, 'via': 'stabilizer_matrix'}
    if matrix_rows(obj.logicals_x, n) != LX:
        return {'class': 'logical_not_the_relabelled_original',
                'which': 'logical_x', 'via': 'matrix'}
    if matrix_rows(obj.logicals_z, n) != LZ:
        return {'class': 'logical_not_the_relabelled_original',
                'which': 'logical_z', 'via': 'matrix'}
    # derived data (row classification, CSS flag and blocks, distance) must
    # be what a fresh instance deformed directly reports - whatever was
    # computed on this object before
    want_d = model.fresh_deformed_derived(name, kw)
    got_d = model.derived_of(obj)
    for key in sorted(want_d):
        if got_d[key] != want_d[key]:
            return {'class': 'derived_data_depends_on_history',
                    'attribute': key,
                    'got': got_d[key] if not isinstance(got_d[key], list)
                    else 'list', 'fresh': want_d[key]
                    if not isinstance(want_d[key], list) else 'list'}
    # the matrix-level helper of the same relabelling: for a Hadamard-type
    # deformation, bpauli.apply_deformation(site set, undeformed H) must be
    # the deformed H - whatever legal form the site set is given in
    if all(d in ({'X': 'X', 'Y': 'Y', 'Z': 'Z'},
                 {'X': 'Z', 'Y': 'Y', 'Z': 'X'}) for d in D) and name:
        bad = check_apply_deformation(model, D, S, LX, sim)
        if bad:
            return bad
    # structure preserved: rank and commutation relations
    rc = refmodel.RefCode.__new__(refmodel.RefCode)
    rc.n, rc.stabs, rc.lx, rc.lz, rc._basis = n, S, LX, LZ, None
    rc.k = len(LX)
    if rc.rank() != model.rank0:
        return {'class': 'rank_changed', 'rank': rc.rank(),
                'undeformed': model.rank0}
    m0 = model.rc
    for i in range(len(LX)):
        for j in range(len(LZ)):
            if refmodel.sprod(LX[i], LZ[j]) != refmodel.sprod(m0.lx[i],
                                                              m0.lz[j]):
                return {'class': 'commutation_changed', 'pair': [i, j]}
    # the deformed code sees D(e) as the undeformed one sees e: all 2n basis
    # errors through the real measure_syndrome / logical_errors
    fresh = model.fresh
    E = np.zeros((2 * n,), dtype=np.uint8)
    for i in range(n):
        for p in 'XZ':
            e0 = np.zeros(2 * n, dtype=np.uint8)
            if p == 'X':
                e0[i] = 1
            else:
                e0[n + i] = 1
            q = D[i][p]
            e1 = np.zeros(2 * n, dtype=np.uint8)
            if q in 'XY':
                e1[i] = 1
            if q in 'ZY':
                e1[n + i] = 1
            s0 = np.asarray(fresh.measure_syndrome(e0)).ravel()
            s1 = np.asarray(obj.measure_syndrome(e1)).ravel()
            if not np.array_equal(s0 % 2, s1 % 2):
                return {'class': 'syndrome_of_relabelled_error_differs',
                        'qubit': i, 'pauli': p}
            l0 = np.asarray(fresh.logical_errors(e0)).ravel()
            l1 = np.asarray(obj.logical_errors(e1)).ravel()
            if not np.array_equal(l0 % 2, l1 % 2):
                return {'class': 'logical_effect_of_relabelled_error_differs',
                        'qubit': i, 'pauli': p}
    # noise side: P_deformed(qubit i has sigma) == P_plain(D_i(sigma))
    for nm, op in noises:
        try:
            Dn = model.D(op['name'], op['kwargs'])
        except ValueError as e:
            return {'class': 'deformation_table_not_a_permutation',
                    'msg': str(e)}
        p = op['p']
        rx, ry, rz = op['direction']
        base = {'X': p * rx, 'Y': p * ry, 'Z': p * rz}
        pi, px, py, pz = nm.probability_distribution(obj, p)
        got = {'X': px, 'Y': py, 'Z': pz}
        for i in range(n):
            if abs(float(pi[i]) - (1 - p)) > 1e-12:
                return {'class': 'noise_identity_probability_wrong',
                        'qubit': i}
            for s in 'XYZ':
                if abs(float(got[s][i]) - base[Dn[i][s]]) > 1e-12:
                    return {'class': 'deformed_noise_is_not_relabelled_noise',
                            'qubit': i, 'pauli': s,
                            'noise_deformation': [op['name'], op['kwargs']]}
        sim.probe('noise_table_compared')
    return None


# ---------------------------------------------------------------------------
# check interface
# ---------------------------------------------------------------------------
WALL_BUDGET = {'quick': 110, 'thorough': 1500}
JOB_TIMEOUT = 1200


def systematic_plans(seed):
    """Every class x size x deformation choice, reached through the history
    'access derived data, deform with another choice, access again, deform
    with the target choice'."""
    out = []
    for cname, sizes in sorted(CLASSES.items()):
        ch = deform_choices(cname)
        for size in sizes:
            for ti, (name, kw) in enumerate(ch):
                other = ch[(ti + 1) % len(ch)]
                ops = [{'op': 'access', 'props': ['stabilizer_matrix',
                                                  'logicals_x', 'Hx', 'k',
                                                  'x_indices', 'is_css']},
                       {'op': 'noise', 'name': other[0], 'kwargs': other[1],
                        'direction': [0.1, 0.2, 0.7], 'p': 0.3},
                       {'op': 'noise', 'name': name, 'kwargs': kw,
                        'direction': [0.1, 0.2, 0.7], 'p': 0.3},
                       {'op': 'weights', 'which': 1},
                       {'op': 'deform', 'name': other[0],
                        'kwargs': other[1]},
                       {'op': 'weights', 'which': 0},
                       {'op': 'access', 'props': ['stabilizer_matrix',
                                                  'logicals_z', 'd']},
                       {'op': 'deform', 'name': name, 'kwargs': kw}]
                out.append({'property': PROP,
                            'seed': H(seed, 'sys', cname, size, ti),
                            'code': cname, 'size': size, 'ops': ops})
    return out


def make_jobs(tier, seed):
    jobs = [{'plans': [p]} for p in systematic_plans(seed)]
    n = 640 if tier == 'quick' else 16000
    per = 4
    for b in range(n // per):
        jobs.append({'plans': [gen_history(H(seed, PROP, 'h', b * per + i))
                               for i in range(per)]})
    n_scan = 160 if tier == 'quick' else 4000
    for b in range(n_scan // 8):
        jobs.append({'plans': [gen_noise_scan(H(seed, PROP, 'scan',
                                                b * 8 + i))
                               for i in range(8)]})
    return jobs


def run_job(job):
    summ = new_aggregate()
    seen = set()
    for plan in job['plans']:
        o = execute(plan)
        summ['runs'] += 1
        summ['checks'] += o['n_checks']
        summ['ops'] += len(plan.get('ops') or plan.get('codes') or [])
        summ['states'].update(o['states'])
        for k, v in o['probes'].items():
            summ['probes'][k] = summ['probes'].get(k, 0) + v
        for k, v in o['fault_counts'].items():
            summ['fault_counts'][k] = summ['fault_counts'].get(k, 0) + v
        if not summ['samples']:
            if plan.get('kind') == 'noise_scan':
                summ['samples'].append({k: plan[k] for k in (
                    'kind', 'name', 'kwargs', 'codes', 'direction', 'p')})
            else:
                summ['samples'].append({
                    'code': plan['code'], 'size': plan['size'],
                    'ops': [[o_['op'], o_.get('name'), o_.get('kwargs'),
                             o_.get('props')] for o_ in plan['ops']][:8],
                    'states_compared': o['n_checks']})
        for v in o['violations']:
            key = canon(signature(plan, v))
            if key not in seen:
                seen.add(key)
                summ['violations'].append({'plan': plan, 'violation': v})
    summ['states'] = sorted(summ['states'])
    return summ


def determinism_plans(seed, n):
    return [gen_history(H(seed, PROP, 'det', i)) for i in range(n)]


def new_aggregate():
    return {'runs': 0, 'violations': [], 'states': set(), 'probes': {},
            'fault_counts': {}, 'checks': 0, 'ops': 0, 'samples': []}


def aggregate(agg, r):
    for k in ('runs', 'checks', 'ops'):
        agg[k] += r[k]
    agg['violations'] += r['violations']
    agg['states'].update(r['states'])
    for k, v in r['probes'].items():
        agg['probes'][k] = agg['probes'].get(k, 0) + v
    for k, v in r['fault_counts'].items():
        agg['fault_counts'][k] = agg['fault_counts'].get(k, 0) + v
    if len(agg['samples']) < 3:
        agg['samples'] += r['samples']


def signature(plan, v):
    d = v.get('detail') or {}
    if plan.get('kind') == 'noise_scan':
        # which code of the scan shows it depends on allocator state
        return {'class': v['class'], 'kind': 'noise_scan'}
    sig = {'class': v['class'], 'code': d.get('code')}
    if 'exc' in d:
        sig['exc'] = d['exc']
    return sig


def shrink(plan, want_sig, max_exec=120):
    if plan.get('kind') == 'noise_scan':
        return plan, 0
    best = copy.deepcopy(plan)
    n_exec = [0]

    def fails(p):
        if n_exec[0] >= max_exec:
            return False
        n_exec[0] += 1
        try:
            o = execute(p)
        except HarnessError:
            return False
        return any(signature(p, v) == want_sig for v in o['violations'])

    def candidates(p):
        for i in range(len(p['ops']) - 1, -1, -1):
            q = copy.deepcopy(p)
            del q['ops'][i]
            if q['ops']:
                yield q
        for s in CLASSES.get(p['code'], []):
            if sum(s) < sum(p['size']):
                q = copy.deepcopy(p)
                q['size'] = s
                yield q
        for i, o in enumerate(p['ops']):
            if o['op'] == 'access' and len(o['props']) > 1:
                q = copy.deepcopy(p)
                q['ops'][i]['props'] = o['props'][:1]
                yield q

    improved = True
    while improved and n_exec[0] < max_exec:
        improved = False
        for q in candidates(best):
            if fails(q):
                best = q
                improved = True
                break
    return best, n_exec[0]


def evidence(tier, agg, wall):
    cov = {
        'evaluations': agg['checks'],
        'distinct_nontrivial': len(agg['states']),
        'rule': (
            'one evaluation = one full comparison of the long-lived code '
            'object (dictionaries, H, logicals, n, k, GF(2) rank, '
            'commutation, real measure_syndrome / logical_errors on all 2n '
            'basis errors, every noise table built so far) with the '
            'relabelling model of a fresh undeformed instance, after one '
            'more operation of a seeded history of deform / property access '
            '/ noise-model construction / cache eviction / gc; plus a '
            'systematic sweep of every class x size x name x axis reached '
            'through a re-deformation history.  distinct_nontrivial = '
            'distinct (class, size, current name, current axis, number of '
            'earlier deformations capped at 3, last operation kind)'),
        'samples': agg['samples'] or [{'note': 'none'}],
        'histories': agg['runs'],
        'operations': agg['ops'],
        'simulated_runs': agg['runs'],
        'simulated_runs_per_hour': int(agg['runs'] / max(wall, 1e-9) * 3600),
        'faults_fired': dict(sorted(agg['fault_counts'].items())),
        'reach_probes': dict(sorted(agg['probes'].items())),
        'real_vs_stub': {
            'real': ['StabilizerCode.deform, get_deformation of 13 code '
                     'classes, lazily cached stabilizer_matrix / Hx / Hz / '
                     'logicals / indices', 'measure_syndrome, '
                     'logical_errors', 'PauliErrorModel.'
                     'probability_distribution (lru_cache keyed by the '
                     'mutable code object)'],
            'simulated': ['the order of deform / access / noise operations '
                          '(seeded history)', 'lru_cache eviction and gc '
                          'points'],
        },
        'exhaustive': False,
    }
    assumptions = [
        "for 'XZZX' the relabelling is defined from the statement (X<->Z "
        "exactly where qubit_axis == axis, default axis = the class's "
        "default) and for 'XY' (Y<->Z everywhere); for the other names the "
        "class's own per-qubit table is used and must be a permutation",
        'a size for which the fresh undeformed instance itself raises is '
        "outside the class's supported family (skipped, counted)",
        'all errors are decided on the 2n single-qubit basis errors by '
        'linearity (C03)',
    ]
    return 'exploration', cov, assumptions
