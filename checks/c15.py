"""C15 - analysis aggregates are conserved however results are split.

A *result store* (a directory tree on the sandbox) evolves under a seeded
history of operations, each executed by real panqec code: simulated cluster
runs (C14 machinery), single runs, resumes, merge-results, zipping,
recompression, moves.  After every operation the real Analysis is built on
the store under a permuted listing order / permuted path list and compared
with pooled raw counts recomputed from an independent reading of the store,
which is itself checked against the trial ledger (nothing fabricated, nothing
duplicated) and for conservation across reshaping operations.
"""
import copy
import gc
import gzip
import json
import math
import os
import zipfile

import numpy as np

from dst import kernel, sandbox as sbx, seams, cluster, runner
from dst.kernel import Sim, HarnessError, stream, canon, digest, H

PROP = 'C15'
TOL = 1e-9


# ---------------------------------------------------------------------------
# chaos decoder (stub, declared as such): random corrections so that
# out-of-codespace trials and every logical bit pattern occur
# ---------------------------------------------------------------------------
def _make_chaos():
    from panqec.decoders import BaseDecoder

    class ChaosDecoder(BaseDecoder):
        label = 'Chaos (verification stub)'
        allowed_codes = None

        def __init__(self, code, error_model, error_rate, seed=0, q=0.3):
            super().__init__(code, error_model, error_rate)
            self._seed = seed
            self._q = q
            self._rng = np.random.default_rng(seed)

        @property
        def params(self):
            return {'seed': self._seed, 'q': self._q}

        def decode(self, syndrome, **kw):
            n = self.code.n
            r = self._rng.random()
            if r < 0.35:
                # a stabilizer-preserving guess: product of random logicals
                # and stabilizers applied to nothing -> lands in codespace
                # only if the error was trivial
                out = np.zeros(2 * n, dtype=np.uint8)
                lx, lz = self.code.logicals_x, self.code.logicals_z
                for L in (lx, lz):
                    for i in range(L.shape[0]):
                        if self._rng.random() < 0.5:
                            row = L[i]
                            row = (row.toarray() if hasattr(row, 'toarray')
                                   else np.asarray(row))
                            out = (out + row.ravel().astype(np.uint8)) % 2
                return out
            return (self._rng.random(2 * n) < self._q * self._rng.random()
                    ).astype(np.uint8)

    return ChaosDecoder


_chaos = {}


def install_chaos():
    from panqec.config import DECODERS
    if 'cls' not in _chaos:
        _chaos['cls'] = _make_chaos()
    DECODERS['ChaosDecoder'] = _chaos['cls']


def uninstall_chaos():
    from panqec.config import DECODERS
    DECODERS.pop('ChaosDecoder', None)


# ---------------------------------------------------------------------------
# independent reader of a store
# ---------------------------------------------------------------------------
def _flatten(doc, out):
    if isinstance(doc, list):
        for d in doc:
            _flatten(d, out)
    elif isinstance(doc, dict) and 'inputs' in doc and 'results' in doc:
        out.append(doc)
    else:
        raise ValueError('not a results document')


def read_store(root):
    """-> identity -> list of (ee tuple, success, codespace), read with
    stdlib only."""
    pool = {}
    meta = {}
    n_files = 0
    for d, _, files in sorted(os.walk(root)):
        for fn in sorted(files):
            p = os.path.join(d, fn)
            docs = []
            try:
                if fn.endswith('.zip'):
                    with zipfile.ZipFile(p) as zf:
                        for m in zf.namelist():
                            raw = zf.read(m)
                            if m.endswith('.gz'):
                                raw = gzip.decompress(raw)
                            docs.append(json.loads(raw.decode()))
                elif fn.endswith('.json.gz'):
                    with sbx._real_open(p, 'rb') as f:
                        docs.append(json.loads(
                            gzip.decompress(f.read()).decode()))
                elif fn.endswith('.json'):
                    with sbx._real_open(p, 'rb') as f:
                        docs.append(json.loads(f.read().decode()))
                else:
                    continue
            except (ValueError, OSError, EOFError, zipfile.BadZipFile):
                # a torn file carrying a results extension is not a results
                # file (nothing on the unchanged tree produces one)
                continue
            n_files += 1
            recs = []
            for doc in docs:
                _flatten(doc, recs)
            for rec in recs:
                x = seams.identity_of_inputs(rec['inputs'])
                r = rec['results']
                seq = [(tuple(int(v) for v in e), bool(s), bool(c))
                       for e, s, c in zip(r['effective_error'],
                                          r['success'], r['codespace'])]
                pool.setdefault(x, []).extend(seq)
                meta[x] = rec['inputs']
    return pool, meta, n_files


def multiset(seq):
    m = {}
    for p in seq:
        m[p] = m.get(p, 0) + 1
    return m


# ---------------------------------------------------------------------------
# specs
# ---------------------------------------------------------------------------
CODE_MENU = [
    ('Planar2DCode', {'L_x': 2, 'L_y': 2}, 1),
    ('Toric2DCode', {'L_x': 2, 'L_y': 2}, 2),
    ('Toric2DCode', {'L_x': 3, 'L_y': 2}, 2),
    ('Toric3DCode', {'L_x': 2, 'L_y': 2, 'L_z': 2}, 3),
    ('Color666ToricCode', {'L_x': 2, 'L_y': 2}, 4),
]


def gen_input(rng, i):
    """Input spec i; identities disjoint between inputs via the rate."""
    cname, cparams, k = rng.choice(CODE_MENU)
    dec = rng.choice(['ChaosDecoder', 'ChaosDecoder', 'real'])
    if dec == 'real':
        if cname in ('Toric2DCode', 'Planar2DCode'):
            decoder = {'name': 'MatchingDecoder', 'parameters': {}}
        else:
            decoder = {'name': 'BeliefPropagationOSDDecoder',
                       'parameters': {'max_bp_iter': 5, 'osd_order': 0}}
    else:
        decoder = {'name': 'ChaosDecoder',
                   'parameters': {'seed': rng.randrange(1000),
                                  'q': rng.choice([0.05, 0.3])}}
    n_rates = rng.choice([1, 2])
    return {'ranges': {
        'label': f'in{i}',
        'code': {'name': cname, 'parameters': [cparams]},
        'error_model': {'name': 'PauliErrorModel', 'parameters': [
            rng.choice([{'r_x': 1/3, 'r_y': 1/3, 'r_z': 1/3},
                        {'r_x': 0.0, 'r_y': 0.0, 'r_z': 1.0},
                        {'r_x': 0.25, 'r_y': 0.25, 'r_z': 0.5}])]},
        'decoder': decoder,
        'error_rate': [round(0.04 + 0.03 * i + 0.01 * r, 4)
                       for r in range(n_rates)],
    }}


def gen_plan(seed, n_ops=None):
    rng = stream(seed, 'c15')
    I = rng.choice([1, 2, 2, 3])
    inputs = [gen_input(rng, i) for i in range(I)]
    ops = []
    N, C = rng.choice([(1, 2), (2, 2), (1, 3), (2, 1), (3, 2)])
    while N * C < I:
        C += 1
    T = rng.randint(N * C, N * C + 8)
    ops.append({'op': 'cluster_run', 'nodes': N, 'cores': C, 'trials': T,
                'policy': rng.choice(kernel.Scheduler.POLICIES),
                'preempt': ([{'node': rng.randint(1, N),
                              'step': rng.randint(1, 3 * C * T + 20)}]
                            if rng.random() < 0.3 else [])})
    n_ops = n_ops or rng.randint(2, 7)
    for _ in range(n_ops):
        kind = rng.choice(['merge', 'merge', 'zip', 'recompress', 'move',
                           'single_run', 'resume', 'cluster_rerun',
                           'zip', 'recompress', 'single_run',
                           'killed_run', 'killed_merge', 'paused_run',
                           'other_format_run', 'swap_names'])
        op = {'op': kind, 'pick': rng.random(), 'pick2': rng.random(),
              'n': rng.choice([2, 2, 3, 5])}
        if kind == 'paused_run':
            op['ki_line'] = rng.randint(150, 900)
        if kind in ('single_run', 'killed_run', 'paused_run',
                    'other_format_run'):
            op['input'] = rng.randrange(I)
            op['trials'] = rng.randint(1, 6)
            op['ext'] = rng.choice(['.json', '.json.gz'])
            # the same nominal error rates, written with float noise (what
            # np.arange / 3*0.1 produce): still the same points
            op['noisy'] = rng.random() < 0.4
        if kind in ('killed_run', 'killed_merge'):
            # the writer is killed right before moving a complete temporary
            # file into place and is never started again
            op['nth'] = rng.randint(0, 6)
        if kind == 'resume':
            op['extra'] = rng.randint(1, 4)
        if kind == 'cluster_rerun':
            op['extra'] = rng.randint(1, 2 * N * C)
        if kind == 'zip':
            op['order_seed'] = rng.randrange(1 << 30)
        ops.append(op)
    # one record with many in-codespace, logically failing trials (a long
    # run near threshold on a tiny code with a complete decoder)
    long_input = {'ranges': {
        'label': 'long',
        'code': {'name': rng.choice(['Toric2DCode', 'Planar2DCode']),
                 'parameters': [{'L_x': 2, 'L_y': 2}]},
        'error_model': {'name': 'PauliErrorModel', 'parameters': [
            {'r_x': 1/3, 'r_y': 1/3, 'r_z': 1/3}]},
        'decoder': {'name': 'MatchingDecoder', 'parameters': {}},
        'error_rate': [0.42]}}
    if rng.random() < 0.3:
        pos = rng.randint(1, len(ops))
        ops.insert(pos, {'op': 'long_run', 'trials': rng.randint(560, 900),
                         'ext': rng.choice(['.json', '.json.gz']),
                         'pick': 0.0, 'pick2': 0.0, 'n': 1})
    return {'property': PROP, 'seed': seed, 'inputs': inputs, 'ops': ops,
            'long_input': long_input,
            'listing_seed': rng.randrange(1 << 30)}


# ---------------------------------------------------------------------------
# execution
# ---------------------------------------------------------------------------
class Store:
    def __init__(self, plan, keep_events=False):
        self.plan = plan
        self.sim = Sim(plan['seed'], keep_events=keep_events)
        self.violations = []
        self.states = set()
        self.n_analyses = 0
        self.rows_checked = 0
        self.samples = []
        self.singles = []      # files produced by single_run: path -> (input, target)
        self.cluster_T = None

    def violate(self, cls, detail, op_idx):
        self.violations.append({'class': cls, 'op': op_idx,
                                'detail': detail})

    def run(self):
        sim = self.sim
        self.sb = sbx.Sandbox(sim, bufsize=8192)
        self.data_dir = self.sb.path('data')
        self.res_dir = os.path.join(self.data_dir, 'results')
        _dt = stream(sim.seed, 'trial_dt')
        self.ledger = seams.Ledger(sim, trial_dt=lambda p: _dt.choice(
            [0.001, 0.01, 0.25]))
        self.lrng = stream(self.plan['listing_seed'], 'listing')
        self.sb.install()
        seams.install_entropy(sim.seed)
        seams.install_clock(sim.clock)
        self.ledger.install()
        install_chaos()
        import pathlib as _pathlib
        import types as _types
        P = self._perm_path(_pathlib.Path)
        shim = _types.ModuleType('pathlib')
        shim.__dict__.update(_pathlib.__dict__)
        shim.Path = P
        listing_undo = [
            (seams.patch_everywhere(_pathlib.Path, P), _pathlib.Path),
            (seams.patch_everywhere(_pathlib, shim), _pathlib)]
        gc_was = gc.isenabled()
        gc.disable()      # finalisers run at chosen points only (see C12)
        try:
            for i, spec in enumerate(self.plan['inputs']):
                self.sb.write_bytes(
                    os.path.join(self.data_dir, 'inputs',
                                 f'input_{i:02d}.json'),
                    canon(spec).encode())
            for i, spec in enumerate(self.plan['inputs']):
                noisy = json.loads(canon(spec))
                noisy['ranges']['error_rate'] = [
                    float(np.nextafter(r, 1.0))
                    for r in noisy['ranges']['error_rate']]
                self.sb.write_bytes(
                    os.path.join(self.data_dir, 'inputs_noisy',
                                 f'input_{i:02d}.json'),
                    json.dumps(noisy).encode())
            if self.plan.get('long_input'):
                self.sb.write_bytes(
                    os.path.join(self.data_dir, 'long', 'input_long.json'),
                    canon(self.plan['long_input']).encode())
            self.expected = {}
            for idx, op in enumerate(self.plan['ops']):
                applied = self.apply(idx, op)
                gc.collect(0)
                if self.violations:
                    break
                self.stamp()
                if applied:
                    self.check_store(idx, op)
                if self.violations:
                    break
        finally:
            if gc_was:
                gc.enable()
            for done, real in listing_undo:
                seams.unpatch(done, real)
            uninstall_chaos()
            self.ledger.uninstall()
            seams.uninstall_clock()
            seams.uninstall_entropy()
            kernel.set_current(None)
            self.sb.destroy()
        return {
            'violations': self.violations,
            'fingerprint': sim.log.fingerprint(),
            'states': sorted(self.states),
            'fault_counts': sim.fault_counts,
            'probes': sim.probes,
            'n_analyses': self.n_analyses,
            'rows_checked': self.rows_checked,
            'samples': self.samples,
            'sim_seconds': sim.clock.now() - 1_700_000_000.0,
            'n_trials': sum(len(v) for d in self.ledger.by_proc.values()
                            for v in d.values()),
        }

    def _perm_path(self, real_Path):
        store = self

        class P:
            def __init__(self, p):
                self._p = real_Path(p)

            def rglob(self, pat):
                res = sorted(self._p.rglob(pat))
                store.lrng.shuffle(res)
                if len(res) > 1:
                    store.sim.probe('listing_permuted')
                return res

            def __getattr__(self, name):
                return getattr(self._p, name)

            def __fspath__(self):
                return os.fspath(self._p)
        return P

    # -- store helpers ------------------------------------------------------
    def result_files(self):
        out = []
        for d, _, files in sorted(os.walk(self.res_dir)):
            for fn in sorted(files):
                if fn.endswith(('.json', '.json.gz', '.zip')):
                    out.append(os.path.join(d, fn))
        return out

    def plain_files(self):
        return [f for f in self.result_files() if not f.endswith('.zip')]

    def pick(self, files, frac, n):
        if not files:
            return []
        start = int(frac * len(files)) % len(files)
        rot = files[start:] + files[:start]
        return rot[:max(1, min(n, len(rot)))]

    # -- operations ---------------------------------------------------------
    def apply(self, idx, op):
        kind = op['op']
        sim = self.sim
        sim.log.add('store', 'op', [idx, kind])
        before = self.snapshot_pool()
        reshaping = kind in ('merge', 'zip', 'recompress', 'move',
                             'killed_merge', 'swap_names')
        ok = True
        if kind in ('cluster_run', 'cluster_rerun'):
            ok = self.op_cluster(idx, op)
        elif kind == 'single_run':
            ok = self.op_single(idx, op)
        elif kind == 'long_run':
            ok = self.op_long(idx, op)
        elif kind == 'killed_run':
            ok = self.op_single(idx, op, kill=True)
        elif kind == 'paused_run':
            ok = self.op_single(idx, op, pause=True)
        elif kind == 'killed_merge':
            ok = self.op_merge(idx, op, kill=True)
        elif kind == 'resume':
            ok = self.op_resume(idx, op)
        elif kind == 'merge':
            ok = self.op_merge(idx, op)
        elif kind == 'zip':
            ok = self.op_zip(idx, op)
        elif kind == 'recompress':
            ok = self.op_recompress(idx, op)
        elif kind == 'move':
            ok = self.op_move(idx, op)
        elif kind == 'other_format_run':
            ok = self.op_other_format(idx, op)
        elif kind == 'swap_names':
            ok = self.op_swap(idx, op)
        else:
            raise HarnessError(f'unknown op {kind}')
        if not ok:
            sim.probe('op_skipped_' + kind)
            return False
        sim.probe('op_' + kind)
        if self.violations:
            return True
        after = self.snapshot_pool()
        if reshaping:
            # conservation: the multiset of trials per identity is unchanged
            for x in set(before) | set(after):
                if multiset(before.get(x, [])) != multiset(after.get(x, [])):
                    self.violate('reshaping_changed_trials', {
                        'op': kind, 'before': len(before.get(x, [])),
                        'after': len(after.get(x, []))}, idx)
                    break
        else:
            # growth: everything new was really executed (ledger), nothing
            # that was there is gone
            led = {}
            for pid, d in self.ledger.by_proc.items():
                for x, seq in d.items():
                    m = led.setdefault(x, {})
                    for p in seq:
                        p = (tuple(p[0]), p[1], p[2])
                        m[p] = m.get(p, 0) + 1
            for x, seq in after.items():
                ms = multiset(seq)
                for p, c in ms.items():
                    if led.get(x, {}).get(p, 0) < c:
                        self.violate('store_trial_not_in_ledger',
                                     {'op': kind}, idx)
                        return True
                mb = multiset(before.get(x, []))
                for p, c in mb.items():
                    if ms.get(p, 0) < c:
                        self.violate('run_lost_stored_trials',
                                     {'op': kind}, idx)
                        return True
        self.expected = after
        return True

    def snapshot_pool(self):
        pool, meta, n = read_store(self.res_dir) \
            if os.path.isdir(self.res_dir) else ({}, {}, 0)
        self.meta = meta
        self.n_files = n
        return pool

    def op_cluster(self, idx, op):
        sim = self.sim
        first = self.plan['ops'][0]
        N, C = first['nodes'], first['cores']
        if op['op'] == 'cluster_run':
            T = first['trials']
        else:
            if self.cluster_T is None or not self.cluster_files_intact():
                return False
            T = self.cluster_T + op['extra']
        rng = stream(self.plan['seed'], 'sched', idx)
        sched = kernel.Scheduler(sim, rng, policy=first['policy'],
                                 max_steps=20000 + 400 * N * C * (T + 2))
        cl = cluster.Cluster(sim, 'full', C + 1, None, sched)
        cl.install()
        try:
            sched.pending_preempt = [(p['step'], p['node'])
                                     for p in op.get('preempt', [])]
            nodes = list(range(1, N + 1))
            rnd = 0
            while nodes:
                if rnd >= 3:
                    sched.pending_preempt = []
                tasks = {}
                for j in nodes:
                    proc = sim.new_proc(f'op{idx}-node{j}r{rnd}')
                    proc.node, proc.round = j, rnd

                    def body(j=j):
                        cl.node_call(self.data_dir, T, N, j, C)
                    tasks[j] = sched.spawn(proc.name, body, proc=proc,
                                           group=j)
                if not sched.run():
                    sched.abandon()
                    raise HarnessError(f'cluster hang {sched.hang}')
                killed = {j for j, t in tasks.items() if t.exc == 'SimKill'}
                for j, t in tasks.items():
                    if t.exc not in (None, 'SimKill'):
                        raise HarnessError(
                            f'cluster node raised {t.exc!r} (C14 territory)')
                killed |= {r['node'] for r in cl.launched
                           if r['round'] == rnd and r.get('proc') is not None
                           and r['proc'].dead}
                for r in cl.launched:
                    if r['exc'] is not None:
                        raise HarnessError(f"worker raised {r['exc']}")
                nodes = sorted(killed)
                rnd += 1
        finally:
            cl.uninstall()
            sim.sched = None
        self.cluster_T = T
        self.cluster_names = sorted(
            os.path.basename(r['args'][1]) for r in cl.launched)
        return True

    def cluster_files_intact(self):
        """cluster_rerun resumes the task files; only meaningful while they
        are still where run-parallel wrote them."""
        return all(os.path.exists(os.path.join(self.res_dir, n))
                   for n in getattr(self, 'cluster_names', ['?']))

    def _run_file(self, name, inp, out, n, fault=None):
        from panqec.simulation import run_file
        proc = self.sim.new_proc(name, fault)
        kernel.set_current(proc)
        seams.clear_caches()
        tracer = None
        if fault and fault.get('at') == 'line':
            tracer = seams.LineTracer(proc)
        try:
            if tracer:
                tracer.start()
            try:
                run_file(inp, out, n, progress=seams.sim_progress)
            finally:
                if tracer:
                    tracer.stop()
        except kernel.SimKill:
            self.sim.probe('writer_killed_before_rename')
        except KeyboardInterrupt:
            self.sim.probe('run_paused_by_interrupt')
        finally:
            kernel.set_current(None)
            gc.collect(0)

    def op_single(self, idx, op, kill=False, pause=False):
        i = op['input']
        sub = 'inputs_noisy' if op.get('noisy') else 'inputs'
        inp = os.path.join(self.data_dir, sub, f'input_{i:02d}.json')
        out = os.path.join(self.res_dir, f'single_{idx}{op["ext"]}')
        fault = None
        if kill:
            fault = {'kind': 'kill', 'at': 'kind', 'name': 'replace-pre',
                     'event': op['nth']}
        if pause:
            # Ctrl-C at a traced line of panqec/simulation (possibly between
            # the appends of one trial); the run is not resumed before the
            # store is analysed
            fault = {'kind': 'ki', 'at': 'line', 'event': op['ki_line']}
        self._run_file(f'op{idx}-single', inp, out, op['trials'], fault)
        if not kill and not pause:
            self.singles.append([out, i, op['trials'], sub])
        if op.get('noisy'):
            self.sim.probe('run_with_float_noise_in_error_rate')
        return True

    def op_long(self, idx, op):
        inp = os.path.join(self.data_dir, 'long', 'input_long.json')
        if not os.path.exists(inp):
            return False
        out = os.path.join(self.res_dir, f'long_{idx}{op["ext"]}')
        self._run_file(f'op{idx}-long', inp, out, op['trials'])
        return True

    def op_resume(self, idx, op):
        live = [s for s in self.singles if os.path.exists(s[0])]
        if not live:
            return False
        s = live[int(op['pick'] * len(live)) % len(live)]
        inp = os.path.join(self.data_dir, s[3], f'input_{s[1]:02d}.json')
        s[2] += op['extra']
        self._run_file(f'op{idx}-resume', inp, s[0], s[2])
        return True

    def op_merge(self, idx, op, kill=False):
        import panqec.cli as pcli
        files = self.pick(self.plain_files(), op['pick'], op['n'])
        if len(files) < 1:
            return False
        ext = '.json.gz' if op['pick2'] < 0.5 else '.json'
        out = os.path.join(self.res_dir, f'merged_{idx}{ext}')
        fault = None
        if kill:
            fault = {'kind': 'kill', 'at': 'kind', 'name': 'replace-pre',
                     'event': 0}
        proc = self.sim.new_proc(f'op{idx}-merge', fault)
        kernel.set_current(proc)
        killed = False
        try:
            pcli.merge_results.callback(result_files=tuple(files),
                                        output_file=out)
        except kernel.SimKill:
            killed = True
            self.sim.probe('writer_killed_before_rename')
        finally:
            kernel.set_current(None)
            gc.collect(0)
        if not killed:
            # (the originals are only removed once the merge has succeeded)
            for f in files:
                sbx._real_remove(f)
        return True

    def op_zip(self, idx, op):
        files = self.pick(self.plain_files(), op['pick'], op['n'])
        if not files:
            return False
        r = stream(op['order_seed'], 'zip')
        r.shuffle(files)
        sub = 'arch' if op['pick2'] < 0.5 else ''
        zp = os.path.join(self.res_dir, sub, f'archive_{idx}.zip')
        sbx._real_makedirs(os.path.dirname(zp), exist_ok=True)
        with zipfile.ZipFile(zp, 'w') as zf:
            for j, f in enumerate(files):
                arc = os.path.basename(f)
                if op['pick2'] > 0.7:
                    arc = f'nested/dir{j}/' + arc
                zf.write(f, arc)
        for f in files:
            sbx._real_remove(f)
        return True

    def op_recompress(self, idx, op):
        from panqec.utils import load_json, save_json
        files = self.pick(self.plain_files(), op['pick'], 1)
        if not files:
            return False
        f = files[0]
        if f.endswith('.json.gz'):
            g = f[:-3]
        else:
            g = f + '.gz'
        if os.path.exists(g):
            return False
        proc = self.sim.new_proc(f'op{idx}-recompress')
        kernel.set_current(proc)
        try:
            save_json(load_json(f), g)
        finally:
            kernel.set_current(None)
        sbx._real_remove(f)
        for s in self.singles:
            if s[0] == f:
                s[0] = g
        return True

    def op_move(self, idx, op):
        files = self.pick(self.result_files(), op['pick'], 1)
        if not files:
            return False
        f = files[0]
        d = os.path.join(self.res_dir, f'sub{idx}', 'deep')
        sbx._real_makedirs(d, exist_ok=True)
        g = os.path.join(d, os.path.basename(f))
        sbx._real_rename(f, g)
        for s in self.singles:
            if s[0] == f:
                s[0] = g
        return True

    def op_other_format(self, idx, op):
        """A run that wrote X.json is continued with compressed output (or
        the other way round): X.json and X.json.gz side by side, holding
        different trials of the same simulations."""
        live = [s for s in self.singles if os.path.exists(s[0])]
        if not live or op['pick2'] < 0.3:
            # no finished single run in the store: make one first
            self.op_single(idx, op)
            live = self.singles[-1:]
        s = live[int(op['pick'] * len(live)) % len(live)]
        f = s[0]
        g = f[:-3] if f.endswith('.json.gz') else f + '.gz'
        if os.path.exists(g):
            return False
        inp = os.path.join(self.data_dir, s[3], f'input_{s[1]:02d}.json')
        self._run_file(f'op{idx}-otherfmt', inp, g, op['trials'])
        self.singles.append([g, s[1], op['trials'], s[3]])
        self.sim.probe('same_stem_plain_and_gz_side_by_side')
        return True

    def _file_identities(self, path):
        try:
            raw = self.sb.read_bytes(path)
            if path.endswith('.gz'):
                raw = gzip.decompress(raw)
            recs = []
            _flatten(json.loads(raw.decode()), recs)
            return sorted(seams.identity_of_inputs(r['inputs'])
                          for r in recs), raw
        except (ValueError, OSError, EOFError, TypeError):
            return None, None

    def op_swap(self, idx, op):
        """Two result files holding parts of the same simulations trade
        names (mv a t; mv b a; mv t b) between two analyses made in one
        process.  Preferred: a pair of equal size with different contents."""
        files = self.plain_files()
        info = {}
        for f in files:
            ids, raw = self._file_identities(f)
            if ids:
                info[f] = (ids, os.path.getsize(f), raw)
        pairs = []
        fl = sorted(info)
        for a_i, a in enumerate(fl):
            for b in fl[a_i + 1:]:
                if a.rsplit('.', 1)[-1] != b.rsplit('.', 1)[-1] \
                        or info[a][0] != info[b][0] \
                        or info[a][2] == info[b][2]:
                    continue
                pairs.append((0 if info[a][1] == info[b][1] else 1, a, b))
        if not pairs:
            return False
        pairs.sort()
        best = [p_ for p_ in pairs if p_[0] == pairs[0][0]]
        _, a, b = best[int(op['pick'] * len(best)) % len(best)]
        if pairs[0][0] == 0:
            self.sim.probe('swapped_files_of_equal_size')
        t = a + '.swapping'
        sbx._real_rename(a, t)
        sbx._real_rename(b, a)
        sbx._real_rename(t, b)
        for s in self.singles:
            if s[0] == a:
                s[0] = b
            elif s[0] == b:
                s[0] = a
        return True

    def stamp(self):
        """File times as a file system with one-second granularity under the
        *simulated* clock gives them: a file keeps its time stamp when it is
        renamed and gets the current simulated second when it is (re)written.
        (The real tmpfs stamps with the machine's clock in nanoseconds, which
        no run could reproduce.)"""
        if not os.path.isdir(self.res_dir):
            return
        seen = getattr(self, '_stamped', None)
        if seen is None:
            seen = self._stamped = {}
        now = int(self.sim.clock.now()) * 10 ** 9
        for d, _, files in sorted(os.walk(self.res_dir)):
            for fn in sorted(files):
                p = os.path.join(d, fn)
                try:
                    st = os.stat(p)
                    dg = digest([self.sb.read_bytes(p).hex()])
                except (OSError, AttributeError):
                    continue
                if seen.get(st.st_ino, (None,))[0] != dg:
                    seen[st.st_ino] = (dg, now)
                os.utime(p, ns=(seen[st.st_ino][1], seen[st.st_ino][1]))

    # -- the oracle ---------------------------------------------------------
    def check_store(self, idx, op):
        from panqec.analysis import Analysis
        exp = self.expected
        if not exp:
            return
        # paths: the results directory, or a permuted list of its entries
        r = stream(self.plan['seed'], 'paths', idx)
        if r.random() < 0.5:
            paths = self.res_dir
        else:
            # (a stale <file>.tmp left by a pre-empted worker is not a
            # results file and is not handed to Analysis explicitly)
            paths = [os.path.join(self.res_dir, e)
                     for e in sorted(os.listdir(self.res_dir))
                     if e.endswith(('.json', '.json.gz', '.zip'))
                     or os.path.isdir(os.path.join(self.res_dir, e))]
            r.shuffle(paths)
        try:
            an = Analysis(paths, verbose=False)
            res = an.get_results()
            an.calculate_thresholds = lambda *a, **k: None   # C16's subject
            an.calculate_sector_thresholds()
            res = an.get_results()
        except Exception as e:
            self.violate('analysis_raised', {
                'exc': type(e).__name__,
                'msg': str(e).replace(self.sb.root, '<sandbox>')[:300],
                'after': op['op']}, idx)
            return
        self.n_analyses += 1
        rows = {}
        for _, row in res.iterrows():
            x = kernel.canon({
                'code': {'name': row['code'],
                         'parameters': row['code_params']},
                'error_model': {'name': row['error_model'],
                                'parameters': row['error_model_params']},
                'decoder': {'name': row['decoder'],
                            'parameters': row['decoder_params']},
                'error_rate': float(row['error_rate']),
            })
            if x in rows:
                self.violate('duplicate_row', {'identity': x}, idx)
                return
            rows[x] = row
        # Analysis rounds error rates to six digits before grouping (float
        # noise is not a different point): pool the expectation the same way
        pooled = {}
        for x, seq in sorted(exp.items()):
            pooled.setdefault(self._norm_ident(x), []).extend(seq)
        if len(pooled) < len(exp):
            self.sim.probe('point_split_over_float_noise_rates')
        exp_ids = set(pooled)
        if set(rows) != exp_ids:
            self.violate('row_set_differs', {
                'missing': len(exp_ids - set(rows)),
                'extra': len(set(rows) - exp_ids)}, idx)
            return
        shape = []
        for x, seq in sorted(pooled.items()):
            row = rows[x]
            self.rows_checked += 1
            self.check_row(idx, x, seq, row)
            if self.violations:
                return
            shape.append(len(seq))
        self.states.add(digest([self.n_files, sorted(shape),
                                sorted(f.rsplit('.', 1)[-1]
                                       for f in self.result_files())]))
        if len(self.samples) < 2:
            self.samples.append({
                'after_op': op['op'], 'files': [
                    self.sb.rel(f) for f in self.result_files()],
                'identities': len(exp), 'trials_per_identity': shape})

    def _norm_ident(self, x):
        d = json.loads(x)
        d['error_rate'] = float(round(d['error_rate'], 6))
        return kernel.canon(d)

    def check_row(self, idx, x, seq, row):
        def bad(what, got, want):
            self.violate('aggregate_mismatch', {
                'column': what, 'got': _f(got), 'want': _f(want)}, idx)

        def close(a, b):
            if a is None or b is None:
                return a is b
            if isinstance(a, float) and math.isnan(a):
                return isinstance(b, float) and math.isnan(b)
            return abs(a - b) <= TOL * max(1.0, abs(b))

        n = len(seq)
        k = int(row['k'])
        n_fail = sum(1 for p in seq if not p[1])
        if int(row['n_trials']) != n:
            return bad('n_trials', row['n_trials'], n)
        if int(row['n_fail']) != n_fail:
            return bad('n_fail', row['n_fail'], n_fail)
        p = n_fail / n
        se = math.sqrt(p * (1 - p) / (n + 1))
        if not close(float(row['p_est']), p):
            return bad('p_est', row['p_est'], p)
        if not close(float(row['p_se']), se):
            return bad('p_se', row['p_se'], se)
        got_rows = [(tuple(int(v) for v in e), bool(s), bool(c))
                    for e, s, c in zip(row['effective_error'],
                                       row['success'], row['codespace'])]
        if multiset(got_rows) != multiset(seq):
            return bad('effective_error/success/codespace rows',
                       len(got_rows), len(seq))
        # sectors
        ncs = sum(1 for q in seq if q[2])
        fx = sum(sum(q[0][:k]) for q in seq if q[2])
        fz = sum(sum(q[0][k:]) for q in seq if q[2])
        for sec, nf in (('X', fx), ('Z', fz)):
            nt = k * ncs
            if int(row[f'n_trials_{sec}']) != nt:
                return bad(f'n_trials_{sec}', row[f'n_trials_{sec}'], nt)
            if int(row[f'n_fail_{sec}']) != nf:
                return bad(f'n_fail_{sec}', row[f'n_fail_{sec}'], nf)
            if nt > 0:
                ps = nf / nt
                if not close(float(row[f'p_est_{sec}']), ps):
                    return bad(f'p_est_{sec}', row[f'p_est_{sec}'], ps)
                ses = math.sqrt(ps * (1 - ps) / (nt + 1))
                if not close(float(row[f'p_se_{sec}']), ses):
                    return bad(f'p_se_{sec}', row[f'p_se_{sec}'], ses)
            else:
                self.sim.probe('sector_without_codespace_trials')
        # word error rate
        pw = 1 - (1 - p) ** (1 / k)
        if p < 1:
            pws = (1 / k) * (1 - p) ** (1 / k - 1) * se
        else:
            pws = None
        if not close(float(row['p_word_est']), pw):
            return bad('p_word_est', row['p_word_est'], pw)
        if pws is not None and not close(float(row['p_word_se']), pws):
            return bad('p_word_se', row['p_word_se'], pws)
        # single-logical-qubit rates, each with its own standard error
        est = np.asarray(row['single_qubit_p_est'], dtype=float)
        ses_ = np.asarray(row['single_qubit_p_se'], dtype=float)
        if est.shape != (k, 4) or ses_.shape != (k, 4):
            return bad('single_qubit shape', list(est.shape), [k, 4])
        for i in range(k):
            pairs = [(q[0][i], q[0][k + i]) for q in seq]
            cnt = {
                0: sum(1 for a in pairs if a != (0, 0)),
                1: sum(1 for a in pairs if a == (1, 0)),
                2: sum(1 for a in pairs if a == (1, 1)),
                3: sum(1 for a in pairs if a == (0, 1)),
            }
            for j in range(4):
                q = cnt[j] / n
                if not close(float(est[i, j]), q):
                    return bad(f'single_qubit_p_est[{i},{j}]', est[i, j], q)
                sq = math.sqrt(q * (1 - q) / (n + 1))
                if not close(float(ses_[i, j]), sq):
                    return bad('single_qubit_p_se', ses_[i, j], sq)
        if max(fx, fz) >= 256:
            self.sim.probe('row_with_256_or_more_sector_fails')
        if ncs < n:
            self.sim.probe('row_with_out_of_codespace_trials')
        if k > 1:
            self.sim.probe(f'row_k{k}')


def _f(v):
    try:
        return float(v)
    except (TypeError, ValueError):
        return str(v)[:80]


def execute_here(plan, keep_events=False):
    return Store(plan, keep_events).run()


def execute(plan, **kw):
    """One plan = one simulated process image: run in a forked child."""
    return runner.isolated(execute_here, plan, **kw)


# ---------------------------------------------------------------------------
# check interface
# ---------------------------------------------------------------------------
WALL_BUDGET = {'quick': 110, 'thorough': 1500}
JOB_TIMEOUT = 900


def run_job(job):
    summ = {'runs': 0, 'violations': [], 'states': set(), 'probes': {},
            'fault_counts': {}, 'analyses': 0, 'rows': 0, 'trials': 0,
            'samples': [], 'ops': 0, 'sim_seconds': 0.0}
    seen = set()
    for s in job['seeds']:
        plan = gen_plan(s)
        o = execute(plan)
        summ['runs'] += 1
        summ['ops'] += len(plan['ops'])
        summ['states'].update(o['states'])
        summ['analyses'] += o['n_analyses']
        summ['rows'] += o['rows_checked']
        summ['trials'] += o['n_trials']
        summ['sim_seconds'] += o.get('sim_seconds', 0.0)
        for k, v in o['probes'].items():
            summ['probes'][k] = summ['probes'].get(k, 0) + v
        for k, v in o['fault_counts'].items():
            summ['fault_counts'][k] = summ['fault_counts'].get(k, 0) + v
        if len(summ['samples']) < 1 and o['samples']:
            summ['samples'].append({
                'ops': [q['op'] for q in plan['ops']],
                'store_after': o['samples'][-1]})
        for v in o['violations']:
            key = canon(signature(plan, v))
            if key not in seen:
                seen.add(key)
                summ['violations'].append({'plan': plan, 'violation': v})
    summ['states'] = sorted(summ['states'])
    return summ


def make_jobs(tier, seed):
    n = 1000 if tier == 'quick' else 12000
    per = 4
    return [{'seeds': [H(seed, PROP, b * per + i) for i in range(per)]}
            for b in range(n // per)]


def determinism_plans(seed, n):
    return [gen_plan(H(seed, PROP, 'det', i)) for i in range(n)]


def new_aggregate():
    return {'runs': 0, 'violations': [], 'states': set(), 'probes': {},
            'fault_counts': {}, 'analyses': 0, 'rows': 0, 'trials': 0,
            'samples': [], 'ops': 0, 'sim_seconds': 0.0}


def aggregate(agg, r):
    for k in ('runs', 'analyses', 'rows', 'trials', 'ops', 'sim_seconds'):
        agg[k] += r[k]
    agg['violations'] += r['violations']
    agg['states'].update(r['states'])
    for k, v in r['probes'].items():
        agg['probes'][k] = agg['probes'].get(k, 0) + v
    for k, v in r['fault_counts'].items():
        agg['fault_counts'][k] = agg['fault_counts'].get(k, 0) + v
    if len(agg['samples']) < 5:
        agg['samples'] += r['samples']


def signature(plan, v):
    d = v.get('detail') or {}
    sig = {'class': v['class']}
    if 'column' in d:
        c = d['column']
        sig['column'] = c.split('[')[0]
    if 'exc' in d:
        sig['exc'] = d['exc']
    if v['class'] == 'reshaping_changed_trials':
        sig['op'] = d.get('op')
    return sig


def shrink(plan, want_sig, max_exec=120):
    best = copy.deepcopy(plan)
    n_exec = [0]

    def fails(p):
        if n_exec[0] >= max_exec:
            return False
        n_exec[0] += 1
        try:
            o = execute(p)
        except HarnessError:
            return False
        return any(signature(p, v) == want_sig for v in o['violations'])

    def candidates(p):
        for i in range(len(p['ops']) - 1, 0, -1):
            q = copy.deepcopy(p)
            del q['ops'][i]
            yield q
        first = p['ops'][0]
        if first.get('preempt'):
            q = copy.deepcopy(p)
            q['ops'][0]['preempt'] = []
            yield q
        if len(p['inputs']) > 1:
            q = copy.deepcopy(p)
            q['inputs'] = q['inputs'][:-1]
            nI = len(q['inputs'])
            q['ops'] = [o for o in q['ops']
                        if o.get('input', 0) < nI]
            yield q
        for key, lo in (('nodes', 1), ('cores', 1), ('trials', 1)):
            if first[key] > lo:
                q = copy.deepcopy(p)
                q['ops'][0][key] -= 1
                n_t = q['ops'][0]['nodes'] * q['ops'][0]['cores']
                if n_t >= len(q['inputs']) and q['ops'][0]['trials'] >= n_t:
                    yield q
        for i, inp in enumerate(p['inputs']):
            if len(inp['ranges']['error_rate']) > 1:
                q = copy.deepcopy(p)
                q['inputs'][i]['ranges']['error_rate'] = \
                    inp['ranges']['error_rate'][:1]
                yield q

    improved = True
    while improved and n_exec[0] < max_exec:
        improved = False
        for q in candidates(best):
            if fails(q):
                best = q
                improved = True
                break
    return best, n_exec[0]


def evidence(tier, agg, wall):
    cov = {
        'evaluations': agg['analyses'],
        'distinct_nontrivial': len(agg['states']),
        'rule': (
            'one evaluation = one construction of the real Analysis on a '
            'result store after one more operation of a seeded history '
            '(simulated cluster run incl. pre-emption, single run, resume, '
            'merge-results, zip with seeded member order, recompress, move) '
            'under a permuted listing order / path list, every row compared '
            'with counts recomputed from an independent stdlib reading of '
            'the store (itself checked against the trial ledger and for '
            'conservation across reshaping operations).  '
            'distinct_nontrivial = distinct (number of files, sorted trials '
            'per identity, sorted container extensions) store shapes'),
        'samples': agg['samples'] or [{'note': 'none'}],
        'histories': agg['runs'],
        'operations': agg['ops'],
        'rows_compared': agg['rows'],
        'simulated_runs': agg['runs'],
        'simulated_runs_per_hour': int(agg['runs'] / max(wall, 1e-9) * 3600),
        'trials_executed': agg['trials'],
        'simulated_seconds_covered': round(agg['sim_seconds'], 1),
        'faults_fired': dict(sorted(agg['fault_counts'].items())),
        'reach_probes': dict(sorted(agg['probes'].items())),
        'real_vs_stub': {
            'real': ['panqec.analysis.Analysis (find_files, read_files, '
                     'aggregate, total / word / single-qubit rates, '
                     'calculate_sector_thresholds, count_fails)',
                     'panqec.cli merge_results and run_parallel bodies',
                     'run_file and everything below it',
                     'utils.load_json / save_json', 'pandas'],
            'simulated': ['Analysis.calculate_thresholds replaced by a no-op '
                          '(curve fitting is C16)', 'ChaosDecoder: seeded '
                          'random-correction decoder registered through '
                          'DECODERS to reach out-of-codespace trials and all '
                          'logical bit patterns', 'multiprocessing, '
                          'scheduling, listing order (Path.rglob, zip member '
                          'order, path list), raw writes, entropy, clock'],
        },
        'exhaustive': False,
    }
    assumptions = [
        'no zero-trial records (BatchSimulation never writes them)',
        'error rates differ by more than 1e-6 (Analysis rounds to 6 digits '
        'by design)',
        'the analysed path set holds every trial exactly once (originals '
        'are removed after merge / zip / recompress)',
    ]
    return 'exploration', cov, assumptions
