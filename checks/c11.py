"""C11 - Monte-Carlo trials are self-consistent, reproducible and calibrated.

Two kinds of simulated run:

* history - 1-4 DirectSimulation objects built the way get_simulations builds
  them (code and noise objects shared, one decoder each), each with an
  injected seeded Generator or with rng=None (OS entropy behind the seam),
  driven by a seeded history of run(k) / get_results() / .results / clock
  jumps / cache evictions / gc.  Oracles: per-trial GF(2) reference at the
  run_once seam, accounting, estimator formulas, and a *twin* of every seeded
  simulation (fresh objects, same generator seed, one run(total), alone in
  its own simulated process) whose result lists must be identical.
* calibration - on tiny codes the u -> Pauli map of the sampler is located by
  bisection with a scripted generator and compared with the stated channel;
  then all 4^n errors are pushed through the real run_once by scripting the
  uniforms and sum_e w(e) [reported failure] is compared with
  sum_e P(e) [e + correction(e) not in the stabilizer group].
"""
import copy
import gc
import json
import math

import numpy as np

from dst import kernel, seams, refmodel, runner
from dst.kernel import Sim, HarnessError, stream, canon, digest, H

PROP = 'C11'

CODES = [
    ('Planar2DCode', [2, 2]), ('Planar2DCode', [3, 2]),
    ('Toric2DCode', [2, 2]), ('Toric2DCode', [3, 2]), ('Toric2DCode', [3, 3]),
    ('RotatedPlanar2DCode', [2, 2]), ('RotatedPlanar2DCode', [3, 3]),
    ('RotatedPlanar2DCode', [2, 3]),
]
DECODERS_FOR = {
    'Toric2DCode': ['MatchingDecoder', 'BeliefPropagationOSDDecoder',
                    'UnionFindDecoder'],
    'Planar2DCode': ['MatchingDecoder', 'BeliefPropagationOSDDecoder'],
    'RotatedPlanar2DCode': ['MatchingDecoder', 'BeliefPropagationOSDDecoder'],
}
NOISES = [
    {'r_x': 1/3, 'r_y': 1/3, 'r_z': 1/3},
    {'r_x': 0.0, 'r_y': 0.0, 'r_z': 1.0},
    {'r_x': 1.0, 'r_y': 0.0, 'r_z': 0.0},
    {'r_x': 0.0, 'r_y': 1.0, 'r_z': 0.0},
    {'r_x': 0.1, 'r_y': 0.2, 'r_z': 0.7},
    {'r_x': 0.25, 'r_y': 0.25, 'r_z': 0.5, 'deformation_name': 'XZZX'},
    {'r_x': 0.05, 'r_y': 0.05, 'r_z': 0.9, 'deformation_name': 'XZZX'},
    {'r_x': 0.6, 'r_y': 0.3, 'r_z': 0.1, 'deformation_name': 'XY'},
]
RATES = [0.02, 0.1, 0.25, 0.5]
# near-twins: channels that differ only in the deformation axis, or only in
# the fifth decimal of the direction (whatever a cache might key on, they
# are different channels)
AXES = [{'deformation_axis': 'x'}, {'deformation_axis': 'y'}]


def near_twin(rng, nz, cname):
    nz = dict(nz)
    if nz.get('deformation_name') == 'XZZX' and rng.random() < 0.7:
        cur = nz.get('deformation_kwargs') or {}
        other = [a for a in AXES if a != cur]
        nz['deformation_kwargs'] = dict(rng.choice(other))
        return nz
    eps = 3e-5
    keys = ['r_x', 'r_y', 'r_z']
    big = max(keys, key=lambda k: nz[k])
    other = rng.choice([k for k in keys if k != big])
    nz[big] = nz[big] - eps
    nz[other] = nz[other] + eps
    return nz


def build(code_spec, noise_spec, dec_spec, rate, dec_rate=None):
    """`dec_rate`: the rate the decoder was constructed for, when it is not
    the rate of the simulation (a decoder calibrated once and used over a
    scan of physical rates)."""
    from panqec.config import CODES as C, DECODERS as D
    from panqec.error_models import PauliErrorModel
    code = C[code_spec[0]](*code_spec[1])
    noise = PauliErrorModel(**noise_spec)
    dec = D[dec_spec['name']](code, noise,
                              rate if dec_rate is None else dec_rate,
                              **dec_spec.get('parameters', {}))
    return code, noise, dec


def deformation_names(code_name):
    from panqec.config import CODES as C
    return list(C[code_name].deformation_names)


# ---------------------------------------------------------------------------
# history plans
# ---------------------------------------------------------------------------
def gen_history(seed):
    rng = stream(seed, 'hist')
    n_codes = rng.choice([1, 1, 2])
    codes = rng.sample(CODES, n_codes)
    if rng.random() < 0.3:
        # two distinct code objects of the same class and size (what a batch
        # with two ranges on one lattice builds)
        codes.append(list(codes[0]))
    # a code object that was already used (its k, d, logicals looked at)
    # before it is Clifford-deformed in place, and only then simulated
    codes = [list(c) for c in codes]
    for c in codes:
        if 'XZZX' in deformation_names(c[0]) and rng.random() < 0.25:
            c.append('XZZX')
    noises = []
    for _ in range(rng.choice([1, 1, 2])):
        nz = dict(rng.choice(NOISES))
        if nz.get('deformation_name') == 'XZZX' and rng.random() < 0.5:
            nz['deformation_kwargs'] = dict(rng.choice(AXES))
        noises.append(nz)
    if rng.random() < 0.35:
        noises = noises[:1] + [near_twin(rng, noises[0], codes[0][0])]
    sims = []
    for _ in range(rng.choice([1, 2, 3, 4])):
        ci = rng.randrange(len(codes))
        ni = rng.randrange(len(noises))
        cname = codes[ci][0]
        if noises[ni].get('deformation_name') not in \
                [None] + deformation_names(cname):
            ni = 0
            if noises[0].get('deformation_name') not in \
                    [None] + deformation_names(cname):
                noises[0] = dict(NOISES[0])
        dname = rng.choice(DECODERS_FOR[cname])
        if len(codes[ci]) > 2:
            dname = 'BeliefPropagationOSDDecoder'   # handles non-CSS codes
        dec = {'name': dname, 'parameters': (
            {'max_bp_iter': rng.choice([5, 10]), 'osd_order': 0}
            if dname.startswith('Belief') else {})}
        if dname == 'MatchingDecoder' and rng.random() < 0.3:
            # a partial decoder: does not always return to the codespace
            dec['parameters'] = {'error_type': rng.choice(['X', 'Z'])}
        rate = rng.choice(RATES)
        sims.append({'code': ci, 'noise': ni, 'decoder': dec,
                     'rate': rate,
                     # a decoder constructed for another physical rate than
                     # the one the simulation samples at
                     'dec_rate': (rng.choice([r for r in RATES if r != rate])
                                  if rng.random() < 0.25 else None),
                     'rng_seed': (rng.randrange(1 << 32)
                                  if rng.random() < 0.75 else None)})
    ops = []
    for _ in range(rng.randint(3, 40)):
        r = rng.random()
        if r < 0.6:
            op = {'op': 'run', 'sim': rng.randrange(len(sims)),
                  'k': rng.choice([0, 1, 1, 2, 3, 5, 7])}
            if op['k'] >= 2 and rng.random() < 0.2:
                # Ctrl-C arrives while trial j of this call is being run
                op['ki_in_trial'] = rng.randrange(op['k'])
            ops.append(op)
        elif r < 0.66:
            ops.append({'op': 'get_results',
                        'sim': rng.randrange(len(sims))})
        elif r < 0.72:
            # what a resumed batch does: a new process builds the simulation
            # again and loads the stored results into it
            ops.append({'op': 'reload', 'sim': rng.randrange(len(sims)),
                        'via_file': rng.random() < 0.5,
                        'new_seed': (rng.randrange(1 << 32)
                                     if rng.random() < 0.7 else None)})
        elif r < 0.8:
            ops.append({'op': 'results', 'sim': rng.randrange(len(sims))})
        elif r < 0.88:
            ops.append({'op': 'clock_jump',
                        'dt': rng.choice([-3600.0, -1.0, 0.5, 86400.0])})
        elif r < 0.95:
            ops.append({'op': 'cache_clear'})
        else:
            ops.append({'op': 'gc'})
    return {'property': PROP, 'kind': 'history', 'seed': seed,
            'codes': codes, 'noises': noises, 'sims': sims, 'ops': ops}


class HistoryExec:
    def __init__(self, plan, keep_events=False):
        self.plan = plan
        self.sim = Sim(plan['seed'], keep_events=keep_events)
        self.violations = []
        self.refs = {}
        self.cur = None          # (sim index, list of shots of this op)
        self.n_checked = 0
        self.states = set()
        self.reloaded = set()
        self.ki_at = None

    def violate(self, cls, detail):
        self.violations.append({'class': cls, 'detail': detail})

    def ref(self, code):
        k = id(code)
        if k not in self.refs:
            self.refs[k] = (code, refmodel.RefCode(code))
        return self.refs[k][1]

    def before_trial(self, proc):
        """Interrupt seam: Ctrl-C lands while the j-th trial of the current
        run(k) call is in progress (before anything of it is recorded)."""
        if self.cur is None or self.ki_at is None:
            return
        if len(self.cur[1]) == self.ki_at:
            self.ki_at = None
            self.sim.count_fault('ki:inside_run_call')
            raise KeyboardInterrupt()

    def on_trial(self, proc, ident, shot):
        """Invariant monitor at the run_once seam."""
        if self.cur is None:
            return
        i, shots = self.cur
        s = self.objs[i]
        shots.append(shot)
        rc = self.ref(s.code)
        n = rc.n
        err = np.asarray(shot['error']).ravel()
        cor = np.asarray(shot['correction']).ravel()
        self.n_checked += 1
        if err.shape != (2 * n,) or not set(np.unique(err)) <= {0, 1}:
            return self.violate('error_not_binary_bsf', {
                'shape': list(err.shape)})
        if cor.shape != (2 * n,):
            return self.violate('correction_wrong_shape', {
                'shape': list(cor.shape)})
        e = refmodel.op_from_bsf(err, n)
        c = refmodel.op_from_bsf(cor, n)
        syn = [int(v) for v in np.asarray(shot['syndrome']).ravel()]
        if syn != rc.syndrome(e):
            return self.violate('syndrome_mismatch', {'sim': i})
        tot = refmodel.add(e, c)
        eff = [int(v) for v in np.asarray(shot['effective_error']).ravel()]
        want_eff = rc.logical_effect(tot)
        if eff != want_eff:
            return self.violate('effective_error_mismatch', {
                'sim': i, 'got': eff, 'want': want_eff})
        in_cs = not any(rc.syndrome(tot))
        if bool(shot['codespace']) != in_cs:
            return self.violate('codespace_mismatch', {
                'sim': i, 'got': bool(shot['codespace']), 'want': in_cs})
        want_succ = in_cs and not any(want_eff)
        if bool(shot['success']) != want_succ:
            return self.violate('success_mismatch', {
                'sim': i, 'got': bool(shot['success']), 'want': want_succ})
        if want_succ != rc.in_stabilizer_group(tot):
            # success <=> residual in the stabilizer group (needs valid code;
            # C01's subject, only counted here)
            self.sim.probe('code_not_valid_stabilizer_code')
        if not in_cs:
            self.sim.probe('trial_out_of_codespace')
        if in_cs and not want_succ:
            self.sim.probe('trial_logical_failure')

    def make_sims(self, proc_tag):
        from panqec.config import CODES as C, DECODERS as D
        from panqec.error_models import PauliErrorModel
        from panqec.simulation import DirectSimulation
        plan = self.plan
        codes = [C[c[0]](*c[1]) for c in plan['codes']]
        for c, obj in zip(plan['codes'], codes):
            if len(c) > 2:
                # used first (what constructing any simulation on it does),
                # deformed afterwards
                _ = (obj.n, obj.k, obj.d)
                obj.deform(c[2])
                self.sim.probe('code_deformed_in_place_after_first_use')
        noises = [PauliErrorModel(**nz) for nz in plan['noises']]
        out = []
        for sp in plan['sims']:
            code, noise = codes[sp['code']], noises[sp['noise']]
            dec = D[sp['decoder']['name']](
                code, noise, sp.get('dec_rate') or sp['rate'],
                **sp['decoder'].get('parameters', {}))
            if sp.get('dec_rate'):
                self.sim.probe('decoder_built_for_another_rate')
            rng = None
            if sp['rng_seed'] is not None:
                rng = np.random.default_rng(sp['rng_seed'])
            out.append(DirectSimulation(code, noise, dec, sp['rate'],
                                        rng=rng, verbose=False))
        return out

    def run(self):
        sim = self.sim
        plan = self.plan
        dt_rng = stream(sim.seed, 'trial_dt')
        ledger = seams.Ledger(
            sim, trial_dt=lambda p: dt_rng.choice([0.001, 0.02, 0.3]),
            on_trial=self.on_trial, before_trial=self.before_trial)
        seams.install_entropy(sim.seed)
        seams.install_clock(sim.clock)
        ledger.install()
        try:
            proc = sim.new_proc('main')
            kernel.set_current(proc)
            seams.clear_caches()
            self.objs = self.make_sims('main')
            totals = [0] * len(self.objs)
            recorded = [[] for _ in self.objs]
            for oi, op in enumerate(plan['ops']):
                kind = op['op']
                sim.log.add(proc.pid, 'op', [oi, kind, op.get('sim'),
                                             op.get('k')])
                if kind == 'run':
                    i = op['sim']
                    s = self.objs[i]
                    shots = []
                    self.cur = (i, shots)
                    self.ki_at = op.get('ki_in_trial')
                    interrupted = False
                    try:
                        s.run(op['k'])
                    except KeyboardInterrupt:
                        # the caller catches it and carries on with the
                        # same simulation object
                        interrupted = True
                    except Exception as e:
                        self.violate('run_raised', {
                            'exc': type(e).__name__, 'msg': str(e)[:200]})
                        break
                    finally:
                        self.cur = None
                    want_n = op['ki_in_trial'] if interrupted else op['k']
                    if len(shots) != want_n:
                        self.violate('wrong_number_of_trials_executed', {
                            'asked': op['k'], 'executed': len(shots),
                            'interrupted': interrupted})
                        break
                    totals[i] += want_n
                    recorded[i] += shots
                    self.check_accounting(i, s, totals[i], recorded[i])
                elif kind == 'get_results':
                    self.check_get_results(op['sim'], self.objs[op['sim']],
                                           recorded[op['sim']])
                elif kind == 'results':
                    i = op['sim']
                    self.check_accounting(i, self.objs[i], totals[i],
                                          recorded[i])
                elif kind == 'reload':
                    i = op['sim']
                    try:
                        self.reload(i, op)
                    except Exception as e:
                        self.violate('reload_raised', {
                            'exc': type(e).__name__, 'msg': str(e)[:200]})
                        break
                    self.reloaded.add(i)
                    sim.probe('simulation_reloaded_from_saved_results')
                    self.check_accounting(i, self.objs[i], totals[i],
                                          recorded[i])
                    if not self.violations:
                        self.check_get_results(i, self.objs[i], recorded[i])
                elif kind == 'clock_jump':
                    sim.clock.advance(op['dt'])
                    sim.count_fault('clock_jump')
                elif kind == 'cache_clear':
                    seams.clear_caches()
                    sim.count_fault('cache_eviction')
                elif kind == 'gc':
                    gc.collect()
                if self.violations:
                    break
            # results digest goes into the fingerprint: replay oracle
            for i, s in enumerate(self.objs):
                r = s.results
                sim.log.add(proc.pid, 'results', digest([
                    r['n_runs'], r['wall_time'],
                    [np.asarray(e).tolist() for e in r['effective_error']],
                    [bool(x) for x in r['success']],
                    [bool(x) for x in r['codespace']]]))
            # twins
            if not self.violations:
                self.check_twins(totals)
            self.states.add(digest([
                len(self.objs), sorted(totals),
                sorted(str(sp['rng_seed'] is None)
                       for sp in plan['sims']),
                sum(1 for o in plan['ops'] if o['op'] == 'run')]))
        finally:
            ledger.uninstall()
            seams.uninstall_clock()
            seams.uninstall_entropy()
            kernel.set_current(None)
        return {
            'violations': self.violations,
            'fingerprint': sim.log.fingerprint(),
            'states': sorted(self.states),
            'fault_counts': sim.fault_counts,
            'probes': sim.probes,
            'n_trials': self.n_checked,
            'sim_seconds': sim.clock.now() - 1_700_000_000.0,
        }

    def reload(self, i, op):
        """Stored results -> JSON -> a newly built simulation of the same
        configuration (fresh code, noise, decoder objects)."""
        import json as _json
        from panqec.config import CODES as C, DECODERS as D
        from panqec.error_models import PauliErrorModel
        from panqec.simulation import DirectSimulation
        from panqec.utils import NumpyEncoder
        sp = self.plan['sims'][i]
        data = _json.loads(_json.dumps(self.objs[i].get_results_to_save(),
                                       cls=NumpyEncoder))
        c = self.plan['codes'][sp['code']]
        code = C[c[0]](*c[1])
        if len(c) > 2:
            code.deform(c[2])
        noise = PauliErrorModel(**self.plan['noises'][sp['noise']])
        dec = D[sp['decoder']['name']](code, noise,
                                       sp.get('dec_rate') or sp['rate'],
                                       **sp['decoder'].get('parameters', {}))
        rng = None
        if op.get('new_seed') is not None:
            rng = np.random.default_rng(op['new_seed'])
        new = DirectSimulation(code, noise, dec, sp['rate'], rng=rng,
                               verbose=False)
        if data['inputs'] != _json.loads(_json.dumps(
                new.get_results_to_save()['inputs'], cls=NumpyEncoder)):
            raise HarnessError('rebuilt simulation has other inputs')
        idents = [canon(_json.loads(_json.dumps(
            s_.get_results_to_save()['inputs'], cls=NumpyEncoder)))
            for s_ in self.objs]
        if op.get('via_file') and len(set(idents)) == len(idents):
            # (two simulations with identical inputs in one file is a user
            # error outside the property: then the record is handed over
            # directly)
            # the way a resumed batch does it: one results file holding the
            # records of ALL simulations, each simulation finds its own
            import os as _os
            from panqec.utils import save_json
            path = f'/dev/shm/dst-c11-{_os.getpid()}-{self.sim.seed % 10**9}'\
                   f'.json'
            try:
                save_json([s_.get_results_to_save() for s_ in self.objs],
                          path)
                new.load_results(path)
            finally:
                for p_ in (path, path + '.tmp'):
                    if _os.path.exists(p_):
                        _os.remove(p_)
            self.sim.probe('reloaded_through_shared_results_file')
        else:
            new.load_results_from_dict(data)
        self.objs[i] = new

    def check_accounting(self, i, s, total, shots):
        r = s.results
        lens = [len(r['effective_error']), len(r['success']),
                len(r['codespace'])]
        if r['n_runs'] != total or lens != [total] * 3 \
                or s.n_results != total:
            return self.violate('accounting_mismatch', {
                'sim': i, 'n_runs': r['n_runs'], 'lens': lens,
                'sum_k': total})
        for j, shot in enumerate(shots):
            if (np.asarray(r['effective_error'][j]).tolist()
                    != np.asarray(shot['effective_error']).tolist()
                    or bool(r['success'][j]) != bool(shot['success'])
                    or bool(r['codespace'][j]) != bool(shot['codespace'])):
                return self.violate('recorded_differs_from_run_once', {
                    'sim': i, 'trial': j})

    def check_get_results(self, i, s, shots):
        try:
            g = s.get_results()
        except Exception as e:
            return self.violate('get_results_raised', {
                'exc': type(e).__name__, 'msg': str(e)[:200]})
        n = len(shots)
        nf = sum(1 for sh in shots if not sh['success'])
        if int(g['n_runs']) != n or int(g['n_fail']) != nf \
                or int(g['n_success']) != n - nf:
            return self.violate('get_results_counts', {
                'sim': i, 'got': [int(g['n_runs']), int(g['n_fail'])],
                'want': [n, nf]})
        if n == 0:
            if not (math.isnan(float(g['p_est']))):
                return self.violate('get_results_p_est', {
                    'got': float(g['p_est']), 'want': 'nan'})
            self.sim.probe('get_results_on_empty')
            return
        p = nf / n
        if abs(float(g['p_est']) - p) > 1e-12:
            return self.violate('get_results_p_est', {
                'got': float(g['p_est']), 'want': p})
        se = math.sqrt(p * (1 - p) / (n + 1))
        if abs(float(g['p_se']) - se) > 1e-12:
            return self.violate('get_results_p_se', {
                'got': float(g['p_se']), 'want': se})

    def check_twins(self, totals):
        """Every seeded simulation, rebuilt from fresh objects with the same
        generator seed and run alone in one run(total), must give identical
        result lists (split / interleaving independence, reproducibility)."""
        sim = self.sim
        plan = self.plan
        proc = sim.new_proc('twins')
        kernel.set_current(proc)
        seams.clear_caches()
        twins = self.make_sims('twin')
        for i, sp in enumerate(plan['sims']):
            if sp['rng_seed'] is None or totals[i] == 0 \
                    or i in self.reloaded:
                # (a reloaded simulation continues with a new generator, so
                # it has no single-seed twin)
                continue
            t = twins[i]
            try:
                t.run(totals[i])
            except Exception as e:
                return self.violate('run_raised', {
                    'exc': type(e).__name__, 'msg': str(e)[:200],
                    'twin': True})
            a, b = self.objs[i].results, t.results
            for key in ('effective_error', 'success', 'codespace'):
                la = [np.asarray(v).tolist() for v in a[key]]
                lb = [np.asarray(v).tolist() for v in b[key]]
                if la != lb:
                    first = next((j for j, (x, y) in enumerate(zip(la, lb))
                                  if x != y), min(len(la), len(lb)))
                    return self.violate('twin_differs', {
                        'sim': i, 'key': key, 'first_diff_at': first,
                        'n': totals[i]})
            sim.probe('twin_compared')


# ---------------------------------------------------------------------------
# calibration
# ---------------------------------------------------------------------------
class SamplerShape(Exception):
    """The sampler does not have the shape the scripted calibration relies
    on (one call of rng.random() per qubit, in qubit order).  Not a verdict:
    the calibration then falls back to a seeded statistical comparison."""


class Scripted:
    """Stands in for numpy's Generator: .random() replays chosen uniforms."""

    def __init__(self, values):
        self.values = values
        self.i = 0

    def random(self, *a, **kw):
        if a or kw:
            raise SamplerShape('rng.random called with arguments')
        v = self.values[self.i % len(self.values)]
        self.i += 1
        return v

    def __getattr__(self, name):
        raise SamplerShape(f'sampler uses rng.{name}')


ONE_MINUS = 1.0 - 2.0 ** -53


def locate_map(code, noise, p):
    """Breakpoints of u -> (Pauli on each qubit) by bisection."""
    from panqec.bpauli import bsf_to_pauli
    n = code.n

    def f(u):
        sc = Scripted([u])
        e = noise.generate(code, p, rng=sc)
        if sc.i != n:
            raise SamplerShape(f'sampler drew {sc.i} uniforms for {n} '
                               'qubits')
        return bsf_to_pauli(e)

    cuts = []

    def rec(lo, flo, hi, fhi):
        if flo == fhi:
            return
        if hi - lo < 2e-16 or (lo + hi) / 2 in (lo, hi):
            cuts.append((hi, flo, fhi))
            return
        mid = (lo + hi) / 2
        fm = f(mid)
        rec(lo, flo, mid, fm)
        rec(mid, fm, hi, fhi)

    f0, f1 = f(0.0), f(ONE_MINUS)
    rec(0.0, f0, ONE_MINUS, f1)
    cuts.sort()
    # piecewise constant pieces: [start, end) -> string
    pieces = []
    start, cur = 0.0, f0
    for c, a, b in cuts:
        pieces.append((start, c, cur))
        start, cur = c, b
    pieces.append((start, 1.0, cur))
    return pieces, f


def calibration(plan):
    sim = Sim(plan['seed'])
    violations = []

    def violate(cls, detail):
        violations.append({'class': cls, 'detail': detail})

    proc = sim.new_proc('calib')
    kernel.set_current(proc)
    seams.install_entropy(plan['seed'])
    n_eval = 0
    info = {}
    try:
        seams.clear_caches()
        code, noise, dec = build(plan['code'], plan['noise'],
                                 plan['decoder'], plan['rate'],
                                 plan.get('dec_rate'))
        if plan.get('dec_rate'):
            sim.probe('decoder_built_for_another_rate')
        p = plan['rate']
        n = code.n
        rc = refmodel.RefCode(code)
        try:
            pieces, f = locate_map(code, noise, p)
        except SamplerShape as e:
            sim.probe('scripted_calibration_not_applicable')
            info['fallback'] = str(e)
            statistical_calibration(plan, sim, code, noise, dec, rc,
                                    violate, info)
            raise _Done()
        # measured per-qubit interval measures
        meas = [{'I': 0.0, 'X': 0.0, 'Y': 0.0, 'Z': 0.0} for _ in range(n)]
        rep = [dict() for _ in range(n)]
        for a, b, s in pieces:
            for i in range(n):
                meas[i][s[i]] += b - a
                if s[i] not in rep[i] or (b - a) > rep[i][s[i]][1]:
                    rep[i][s[i]] = ((a + b) / 2, b - a)
        # guard against a non-monotone map: seeded spot checks
        r = stream(plan['seed'], 'spot')
        for _ in range(40):
            u = r.random()
            want = next(s for a, b, s in pieces if a <= u < b)
            if f(u) != want:
                violate('sampler_map_not_piecewise_as_located', {'u': u})
                break
        dname = plan['noise'].get('deformation_name')
        dkw = plan['noise'].get('deformation_kwargs') or {}
        defs = [code.get_deformation(q, dname, **dkw) if dname else None
                for q in code.qubit_coordinates]
        ref_ch = refmodel.channel(
            p, (plan['noise']['r_x'], plan['noise']['r_y'],
                plan['noise']['r_z']), defs)
        for i in range(n):
            for j, s in enumerate('IXYZ'):
                if abs(meas[i][s] - ref_ch[i][j]) > 1e-12:
                    violate('sampling_distribution_mismatch', {
                        'qubit': i, 'pauli': s, 'measured': meas[i][s],
                        'stated': ref_ch[i][j]})
                    break
            if violations:
                break
        info['pieces'] = len(pieces)
        # enumerate all 4^n errors through the real DirectSimulation.run(1)
        # (a tap on run_once hands over the error and correction of the
        # trial, the verdict is the one the simulation recorded)
        if not violations:
            import panqec.simulation._direct_simulation as ds
            from panqec.simulation import DirectSimulation
            master = Scripted([0.0])
            dsim = DirectSimulation(code, noise, dec, p, rng=master,
                                    verbose=False)
            tapped = {}
            real_once = ds.run_once

            def tap(*a, **kw):
                shot_ = real_once(*a, **kw)
                tapped['shot'] = shot_
                return shot_
            ds.run_once = tap
            undo_tap = seams.patch_everywhere(real_once, tap)
            total_w = 0.0
            est = 0.0      # sum_e w(e) [reported failure]
            exact = 0.0    # sum_e P(e) [e + correction not in S]
            idx = {'I': 0, 'X': 1, 'Y': 2, 'Z': 3}
            for code_int in range(4 ** n):
                s = ''
                v = code_int
                w = 1.0
                P = 1.0
                us = []
                for i in range(n):
                    c = 'IXYZ'[v & 3]
                    v >>= 2
                    s += c
                    P *= ref_ch[i][idx[c]]
                    if c in rep[i]:
                        us.append(rep[i][c][0])
                        w *= meas[i][c]
                    else:
                        w = 0.0
                if w == 0.0 and P == 0.0:
                    continue
                if w == 0.0:
                    # the sampler can never produce an error the channel
                    # gives weight to: already reported above
                    continue
                sc = master
                sc.values, sc.i = us, 0
                tapped.clear()
                dsim.run(1)
                if 'shot' not in tapped:
                    raise HarnessError('DirectSimulation.run(1) did not go '
                                       'through run_once')
                shot = dict(tapped['shot'])
                r_ = dsim.results
                if r_['n_runs'] != n_eval + 1 \
                        or len(r_['success']) != n_eval + 1:
                    violate('accounting_mismatch', {
                        'n_runs': r_['n_runs'], 'trials': n_eval + 1})
                    break
                shot['success'] = r_['success'][-1]
                n_eval += 1
                e = refmodel.op_from_string(s)
                got_e = refmodel.op_from_bsf(
                    np.asarray(shot['error']).ravel(), n)
                if got_e != e or sc.i != n:
                    violate('scripted_error_not_reproduced', {'error': s})
                    break
                c_op = refmodel.op_from_bsf(
                    np.asarray(shot['correction']).ravel(), n)
                tot = refmodel.add(e, c_op)
                true_fail = not rc.in_stabilizer_group(tot)
                rep_fail = not bool(shot['success'])
                if true_fail != rep_fail:
                    violate('reported_failure_differs_from_group_membership',
                            {'error': s, 'reported_fail': rep_fail,
                             'in_group': not true_fail})
                    break
                total_w += w
                est += w * rep_fail
                exact += P * true_fail
            ds.run_once = real_once
            seams.unpatch(undo_tap, real_once)
            if not violations:
                if abs(total_w - 1.0) > 1e-9:
                    violate('sampler_measure_not_one', {'total': total_w})
                if abs(est - exact) > 1e-9:
                    violate('estimator_biased', {
                        'expected_frequency': est, 'exact_failure': exact})
                info['exact_failure_probability'] = exact
                # thorough: seeded Monte-Carlo cross-check, exact binomial
                # tail, alpha = 1e-9 (cannot become a false-alarm generator)
                if plan.get('mc_trials'):
                    from panqec.simulation import DirectSimulation
                    s_ = DirectSimulation(
                        code, noise, dec, p,
                        rng=np.random.default_rng(plan['seed'] & 0xffffffff),
                        verbose=False)
                    s_.run(plan['mc_trials'])
                    kf = sum(1 for x in s_.results['success'] if not x)
                    tail = binom_two_sided(kf, plan['mc_trials'], exact)
                    info['mc'] = [kf, plan['mc_trials'], tail]
                    if tail < 1e-9:
                        violate('monte_carlo_inconsistent_with_exact', {
                            'fails': kf, 'trials': plan['mc_trials'],
                            'exact': exact, 'tail': tail})
    except _Done:
        pass
    except HarnessError:
        raise
    except SamplerShape as e:
        # shape changed half-way (e.g. inside run_once): fall back as well
        sim.probe('scripted_calibration_not_applicable')
        info['fallback'] = str(e)
        try:
            statistical_calibration(plan, sim, code, noise, dec, rc,
                                    violate, info)
        except Exception as e2:
            violate('calibration_raised', {'exc': type(e2).__name__,
                                           'msg': str(e2)[:200]})
    except Exception as e:
        violate('calibration_raised', {'exc': type(e).__name__,
                                       'msg': str(e)[:200]})
    finally:
        seams.uninstall_entropy()
        kernel.set_current(None)
    sim.log.add('calib', 'result', [canon(violations), info.get(
        'exact_failure_probability')])
    return {
        'violations': violations,
        'fingerprint': sim.log.fingerprint(),
        'states': [digest([plan['code'], plan['noise'], plan['decoder'],
                           plan['rate'], plan.get('dec_rate')])],
        'fault_counts': {},
        'probes': dict(sim.probes, calibration_errors_enumerated=n_eval,
                       calibration_config=1),
        'n_trials': n_eval,
        'info': info,
    }


def calibration_seq(plan):
    """Several noise models used one after the other in ONE simulated
    process on ONE shared code object at one error rate (an axis scan, a
    bias scan): the sampler of each must realise its own stated channel,
    whatever was evaluated before it."""
    sim = Sim(plan['seed'])
    violations = []
    proc = sim.new_proc('calib-seq')
    kernel.set_current(proc)
    seams.install_entropy(plan['seed'])
    n_models = 0
    try:
        seams.clear_caches()
        from panqec.config import CODES as C
        from panqec.error_models import PauliErrorModel
        # one or two distinct code objects of the same class and size
        codes = [C[plan['code'][0]](*plan['code'][1])
                 for _ in range(plan.get('n_code_objects', 1))]
        p = plan['rate']
        n = codes[0].n
        models = [PauliErrorModel(**nz) for nz in plan['noises']]
        order = plan.get('order') or list(range(len(models)))
        items = [(oi, ci) for ci in range(len(codes)) for oi in order]
        if plan.get('recheck_first', True) and len(items) > 1:
            items.append(items[0])      # aliasing: look at the first again
        for pos, (oi, ci) in enumerate(items):
            code = codes[ci]
            nz, noise = plan['noises'][oi], models[oi]
            pieces, f = locate_map(code, noise, p)
            meas = [{'I': 0.0, 'X': 0.0, 'Y': 0.0, 'Z': 0.0}
                    for _ in range(n)]
            for a, b, s_ in pieces:
                for i in range(n):
                    meas[i][s_[i]] += b - a
            dname = nz.get('deformation_name')
            dkw = nz.get('deformation_kwargs') or {}
            defs = [code.get_deformation(q, dname, **dkw) if dname else None
                    for q in code.qubit_coordinates]
            ref_ch = refmodel.channel(p, (nz['r_x'], nz['r_y'], nz['r_z']),
                                      defs)
            n_models += 1
            bad = None
            for i in range(n):
                for j, c in enumerate('IXYZ'):
                    if abs(meas[i][c] - ref_ch[i][j]) > 1e-12:
                        bad = {'qubit': i, 'pauli': c,
                               'measured': meas[i][c],
                               'stated': ref_ch[i][j],
                               'model_index': oi, 'code_object': ci,
                               'position_in_sequence': pos,
                               'noise': nz}
                        break
                if bad:
                    break
            # the table handed to decoders must be the same channel
            if not bad:
                pd = noise.probability_distribution(code, p)
                for i in range(n):
                    for j in range(4):
                        if abs(float(pd[j][i]) - ref_ch[i][j]) > 1e-12:
                            bad = {'qubit': i, 'table_entry': j,
                                   'model_index': oi, 'code_object': ci,
                                   'position_in_sequence': pos, 'via':
                                   'probability_distribution', 'noise': nz}
                            break
                    if bad:
                        break
            if bad:
                violations.append({
                    'class': 'sampling_distribution_mismatch',
                    'detail': bad})
                break
    except HarnessError:
        raise
    except SamplerShape:
        # cannot be scripted: this oracle does not apply (the history /
        # twin oracle and the statistical fallback still do)
        sim.probe('scripted_calibration_not_applicable')
    except Exception as e:
        violations.append({'class': 'calibration_raised', 'detail': {
            'exc': type(e).__name__, 'msg': str(e)[:200]}})
    finally:
        seams.uninstall_entropy()
        kernel.set_current(None)
    sim.log.add('calib-seq', 'result', [canon(violations), n_models])
    return {
        'violations': violations, 'fingerprint': sim.log.fingerprint(),
        'states': [digest([plan['code'], plan['noises'], plan.get('order'),
                           plan['rate']])],
        'fault_counts': {},
        'probes': dict(sim.probes, calibration_sequence=1,
                       models_calibrated_in_sequence=n_models),
        'n_trials': 0, 'info': {'models': n_models},
    }


def gen_calibration_seq(seed):
    rng = stream(seed, 'calseq')
    code = list(rng.choice([c for c in CODES if c[0] != 'UnionFind']))
    base = dict(rng.choice(NOISES))
    if base.get('deformation_name') not in \
            [None] + deformation_names(code[0]):
        base = dict(NOISES[5])
    if base.get('deformation_name') == 'XZZX':
        base['deformation_kwargs'] = dict(rng.choice(AXES))
    noises = [base]
    for _ in range(rng.choice([1, 2, 3])):
        noises.append(near_twin(rng, rng.choice(noises), code[0]))
    order = list(range(len(noises)))
    rng.shuffle(order)
    return {'property': PROP, 'kind': 'calibration_seq', 'seed': seed,
            'code': code, 'noises': noises, 'order': order,
            'n_code_objects': rng.choice([1, 2, 2]),
            'rate': rng.choice(RATES)}


class _Done(Exception):
    pass


def statistical_calibration(plan, sim, code, noise, dec, rc, violate, info):
    """Fallback when the sampler cannot be scripted: exact failure
    probability from the *stated* channel and the real decoder (enumeration
    of all 4^n errors, stabilizer-group membership), compared with a seeded
    Monte-Carlo run of the real DirectSimulation by an exact two-sided
    binomial test at alpha = 1e-9."""
    from panqec.bpauli import pauli_to_bsf
    from panqec.simulation import DirectSimulation
    p = plan['rate']
    n = code.n
    dname = plan['noise'].get('deformation_name')
    dkw = plan['noise'].get('deformation_kwargs') or {}
    defs = [code.get_deformation(q, dname, **dkw) if dname else None
            for q in code.qubit_coordinates]
    ch = refmodel.channel(p, (plan['noise']['r_x'], plan['noise']['r_y'],
                              plan['noise']['r_z']), defs)
    if n > 6:
        sim.probe('statistical_calibration_skipped_n_gt_6')
        return
    exact = 0.0
    for code_int in range(4 ** n):
        s_, v, P = '', code_int, 1.0
        for i in range(n):
            c = 'IXYZ'[v & 3]
            v >>= 2
            s_ += c
            P *= ch[i]['IXYZ'.index(c)]
        if P == 0.0:
            continue
        e_bsf = pauli_to_bsf(s_)
        cor = dec.decode(code.measure_syndrome(e_bsf))
        tot = refmodel.add(refmodel.op_from_string(s_),
                           refmodel.op_from_bsf(np.asarray(cor).ravel(), n))
        if not rc.in_stabilizer_group(tot):
            exact += P
    trials = 20000
    s = DirectSimulation(code, noise, dec, p, verbose=False,
                         rng=np.random.default_rng(plan['seed'] & 0xffffffff))
    s.run(trials)
    kf = sum(1 for x in s.results['success'] if not x)
    tail = binom_two_sided(kf, trials, exact)
    info['statistical'] = [kf, trials, exact, tail]
    if tail < 1e-9:
        violate('monte_carlo_inconsistent_with_exact', {
            'fails': kf, 'trials': trials, 'exact': exact, 'tail': tail})


def binom_two_sided(k, n, p):
    """Exact two-sided binomial tail (sum of probabilities <= P(k))."""
    if p <= 0.0:
        return 1.0 if k == 0 else 0.0
    if p >= 1.0:
        return 1.0 if k == n else 0.0
    logp, logq = math.log(p), math.log1p(-p)

    def lp(j):
        return (math.lgamma(n + 1) - math.lgamma(j + 1)
                - math.lgamma(n - j + 1) + j * logp + (n - j) * logq)
    ref = lp(k)
    lo = sum(math.exp(lp(j)) for j in range(0, n + 1)
             if lp(j) <= ref + 1e-12)
    return min(1.0, lo)


def execute_here(plan, keep_events=False):
    if plan['kind'] == 'history':
        return HistoryExec(plan, keep_events).run()
    if plan['kind'] == 'calibration_seq':
        return calibration_seq(plan)
    return calibration(plan)


def execute(plan, **kw):
    """One plan = one simulated process image: run in a forked child."""
    return runner.isolated(execute_here, plan, **kw)


# ---------------------------------------------------------------------------
# check interface
# ---------------------------------------------------------------------------
WALL_BUDGET = {'quick': 110, 'thorough': 1500}
JOB_TIMEOUT = 1200


def calibration_plans(tier, seed):
    plans = []
    small = [('Planar2DCode', [2, 2]), ('RotatedPlanar2DCode', [2, 2]),
             ('RotatedPlanar2DCode', [2, 3])]
    mid = [('Toric2DCode', [2, 2])]
    big = [('RotatedPlanar2DCode', [3, 3])]
    rng = stream(seed, 'calib')

    def add(code, nz, dname, rate, mc=None):
        if nz.get('deformation_name') not in \
                [None] + deformation_names(code[0]):
            return
        dec = {'name': dname, 'parameters': (
            {'max_bp_iter': 10, 'osd_order': 0}
            if dname.startswith('Belief') else {})}
        plans.append({'property': PROP, 'kind': 'calibration',
                      'seed': H(seed, 'cal', len(plans)), 'code': list(code),
                      'noise': dict(nz), 'decoder': dec, 'rate': rate,
                      'dec_rate': (rng.choice([r for r in RATES if r != rate])
                                   if len(plans) % 3 == 1 else None),
                      'mc_trials': mc})

    for code in small:
        for nz in NOISES:
            for dname in DECODERS_FOR[code[0]][:2]:
                add(code, nz, dname, rng.choice(RATES),
                    20000 if tier == 'thorough' else None)
    for code in mid:
        for nz in (NOISES[:2] + NOISES[4:6] if tier == 'quick' else NOISES):
            for dname in (['MatchingDecoder'] if tier == 'quick'
                          else DECODERS_FOR[code[0]]):
                add(code, nz, dname, rng.choice(RATES))
    if tier == 'thorough':
        for code in big:
            for nz in NOISES:
                add(code, nz, 'MatchingDecoder', rng.choice(RATES))
    return plans


def run_job(job):
    summ = new_aggregate()
    seen = set()
    for plan in job['plans']:
        o = execute(plan)
        absorb(summ, plan, o, seen)
    summ['states'] = sorted(summ['states'])
    return summ


def absorb(summ, plan, o, seen):
    summ['runs'] += 1
    summ['states'].update(o['states'])
    summ['trials'] += o['n_trials']
    summ['sim_seconds'] += o.get('sim_seconds', 0.0)
    if plan['kind'] == 'history':
        summ['histories'] += 1
        summ['ops'] += len(plan['ops'])
    elif plan['kind'] == 'calibration_seq':
        summ['calibration_sequences'] = summ.get(
            'calibration_sequences', 0) + 1
    else:
        summ['calibrations'] += 1
    for k, v in o['probes'].items():
        summ['probes'][k] = summ['probes'].get(k, 0) + v
    for k, v in o['fault_counts'].items():
        summ['fault_counts'][k] = summ['fault_counts'].get(k, 0) + v
    if len(summ['samples']) < 2:
        if plan['kind'] == 'history':
            summ['samples'].append({
                'kind': 'history', 'sims': plan['sims'],
                'ops': [[o_['op'], o_.get('sim'), o_.get('k')]
                        for o_ in plan['ops']][:12]})
        elif plan['kind'] == 'calibration_seq':
            summ['samples'].append({
                'kind': 'calibration_seq', 'code': plan['code'],
                'noises': plan['noises'], 'order': plan['order'],
                'rate': plan['rate']})
        else:
            summ['samples'].append({
                'kind': 'calibration', 'code': plan['code'],
                'noise': plan['noise'], 'decoder': plan['decoder']['name'],
                'rate': plan['rate'], 'result': o.get('info')})
    for v in o['violations']:
        key = canon(signature(plan, v))
        if key not in seen:
            seen.add(key)
            summ['violations'].append({'plan': plan, 'violation': v})


def make_jobs(tier, seed):
    jobs = []
    for p in calibration_plans(tier, seed):
        jobs.append({'plans': [p]})
    n = 1600 if tier == 'quick' else 40000
    per = 20
    for b in range(n // per):
        jobs.append({'plans': [gen_history(H(seed, PROP, 'h', b * per + i))
                               for i in range(per)]})
    n_seq = 320 if tier == 'quick' else 6000
    for b in range(n_seq // per):
        jobs.append({'plans': [gen_calibration_seq(
            H(seed, PROP, 'cs', b * per + i)) for i in range(per)]})
    # Proportional interleaving of the three kinds of job: when the wall
    # budget cuts the list short (a loaded machine), every kind loses the
    # same fraction instead of the histories losing everything to the
    # calibrations that used to come first.
    kinds = {}
    for j in jobs:
        kinds.setdefault(j['plans'][0]['kind'], []).append(j)
    keyed = []
    for ki, (kind, js) in enumerate(sorted(kinds.items())):
        for i, j in enumerate(js):
            keyed.append(((i + 0.5) / len(js), ki, i, j))
    keyed.sort(key=lambda t: t[:3])
    return [t[3] for t in keyed]


def determinism_plans(seed, n):
    return [gen_history(H(seed, PROP, 'det', i)) for i in range(n)]


def new_aggregate():
    return {'runs': 0, 'violations': [], 'states': set(), 'probes': {},
            'fault_counts': {}, 'trials': 0, 'samples': [], 'histories': 0,
            'calibrations': 0, 'ops': 0, 'sim_seconds': 0.0}


def aggregate(agg, r):
    for k in ('runs', 'trials', 'histories', 'calibrations', 'ops',
              'sim_seconds'):
        agg[k] += r[k]
    agg['calibration_sequences'] = agg.get('calibration_sequences', 0) + \
        r.get('calibration_sequences', 0)
    agg['violations'] += r['violations']
    agg['states'].update(r['states'])
    for k, v in r['probes'].items():
        agg['probes'][k] = agg['probes'].get(k, 0) + v
    for k, v in r['fault_counts'].items():
        agg['fault_counts'][k] = agg['fault_counts'].get(k, 0) + v
    kinds = {s['kind'] for s in agg['samples']}
    for s in r['samples']:
        if s['kind'] not in kinds or len(agg['samples']) < 4:
            agg['samples'].append(s)
            kinds.add(s['kind'])


def signature(plan, v):
    d = v.get('detail') or {}
    sig = {'class': v['class'], 'kind': plan['kind']}
    if 'exc' in d:
        sig['exc'] = d['exc']
    if 'key' in d:
        sig['key'] = d['key']
    return sig


def shrink(plan, want_sig, max_exec=150):
    if plan['kind'] != 'history':
        return plan, 0
    best = copy.deepcopy(plan)
    n_exec = [0]

    def fails(p):
        if n_exec[0] >= max_exec:
            return False
        n_exec[0] += 1
        try:
            o = execute(p)
        except HarnessError:
            return False
        return any(signature(p, v) == want_sig for v in o['violations'])

    def candidates(p):
        ops = p['ops']
        # drop halves, then single ops
        if len(ops) > 3:
            h = len(ops) // 2
            for part in (ops[:h], ops[h:]):
                q = copy.deepcopy(p)
                q['ops'] = copy.deepcopy(part)
                yield q
        for i in range(len(ops) - 1, -1, -1):
            q = copy.deepcopy(p)
            del q['ops'][i]
            yield q
        # drop a simulation
        if len(p['sims']) > 1:
            for i in range(len(p['sims'])):
                q = copy.deepcopy(p)
                del q['sims'][i]
                q['ops'] = [o for o in q['ops'] if o.get('sim') != i]
                for o in q['ops']:
                    if o.get('sim', -1) > i:
                        o['sim'] -= 1
                yield q
        for i, o in enumerate(ops):
            if o['op'] == 'run' and o['k'] > 1:
                q = copy.deepcopy(p)
                q['ops'][i]['k'] -= 1
                yield q

    improved = True
    while improved and n_exec[0] < max_exec:
        improved = False
        for q in candidates(best):
            if fails(q):
                best = q
                improved = True
                break
    return best, n_exec[0]


def evidence(tier, agg, wall):
    cov = {
        'evaluations': agg['runs'],
        'distinct_nontrivial': len(agg['states']),
        'rule': (
            'one evaluation = one simulated run: either a seeded history '
            '(<= 40 operations: run(k), get_results, .results, clock jump, '
            'cache eviction, gc) on 1-4 DirectSimulation objects sharing '
            'code / noise objects, with every trial checked against the '
            'int-bitmask GF(2) reference at the run_once seam and every '
            'seeded simulation compared with a fresh twin run alone; or one '
            'exact calibration (u -> Pauli map by bisection, then all 4^n '
            'errors scripted one by one through run(1) of one real '
            'DirectSimulation whose rng= is the scripted generator; in a '
            'third of the configurations the decoder was constructed for '
            'another physical rate than the simulation samples at).  '
            'distinct_nontrivial = distinct (number of simulations, sorted '
            'trial totals, seeded/unseeded mix, number of run calls) history '
            'shapes plus distinct calibration configurations'),
        'samples': agg['samples'] or [{'note': 'none'}],
        'histories': agg['histories'],
        'history_operations': agg['ops'],
        'calibration_configurations': agg['calibrations'],
        'calibration_sequences_sharing_one_process': agg.get(
            'calibration_sequences', 0),
        'trials_checked_against_reference': agg['trials'],
        'simulated_seconds_covered': round(agg['sim_seconds'], 1),
        'simulated_runs': agg['runs'],
        'simulated_runs_per_hour': int(agg['runs'] / max(wall, 1e-9) * 3600),
        'faults_fired': dict(sorted(agg['fault_counts'].items())),
        'reach_probes': dict(sorted(agg['probes'].items())),
        'real_vs_stub': {
            'real': ['DirectSimulation.run / _run / get_results / results',
                     'run_once', 'PauliErrorModel.generate / fast_choice / '
                     'probability_distribution', 'codes', 'Matching / '
                     'UnionFind / BP-OSD decoders', 'bpauli'],
            'simulated': ['OS entropy (numpy.random.default_rng without '
                          'seed)', 'wall clock', 'the uniform variates in '
                          'calibration runs (scripted generator object '
                          'passed through the existing rng= argument)',
                          'lru_cache eviction points'],
        },
        'exhaustive': False,
    }
    assumptions = [
        'the reference reads the code through get_stabilizer / '
        'get_logicals_x/z and qubit_coordinates (C02 is about their '
        'faithfulness to the matrices)',
        'the per-qubit noise deformation table is taken from the code class '
        '(C08 is about its correctness)',
        'sweep-match decoders are left out of C11 workloads (attribution: '
        'their tie-break crash belongs to C10)',
    ]
    return 'exploration', cov, assumptions
