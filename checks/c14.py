"""C14 - parallel runs execute exactly the requested trials per input.

The simulated system is a cluster: N invocations of the real `run-parallel`
command body (one per node), each starting C worker processes through the
multiprocessing seam.  Two depths:

* args mode - workers are recorded, not run; the whole box of configurations
  (inputs <= 5, N <= 4, C <= 8, T <= 60 with the precondition) is enumerated;
* full mode - workers really run `run_file` on tiny codes as scheduled tasks
  on the instrumented sandbox, interleaved by the seeded scheduler, with node
  pre-emption (all tasks of a node killed at a scheduler step, possibly
  mid-write) followed by resubmission of that job.
"""
import copy
import gc
import json
import os

from dst import kernel, sandbox as sbx, seams, cluster, runner
from dst.kernel import Sim, HarnessError, stream, canon, digest, H
from checks.c12 import parse_results_bytes, records_to_model

PROP = 'C14'


def input_spec(i, rng=None, n_rates=1):
    """Input file i: identities are disjoint between inputs (distinct error
    rates), tiny codes, fast decoder."""
    sizes = [[2, 2], [3, 2]]
    return {'ranges': {
        'label': f'in{i}',
        'code': {'name': 'Toric2DCode', 'parameters': [
            {'L_x': s[0], 'L_y': s[1]} for s in sizes[:1 + (i % 2)]]},
        'error_model': {'name': 'PauliErrorModel', 'parameters': [
            {'r_x': 1/3, 'r_y': 1/3, 'r_z': 1/3}]},
        'decoder': {'name': 'MatchingDecoder', 'parameters': {}},
        'error_rate': [round(0.05 + 0.02 * i + 0.005 * r, 4)
                       for r in range(n_rates)],
    }}


def precondition(I, N, C, T):
    n_tasks = N * C
    if n_tasks < I:
        return False
    max_tpi = n_tasks // I + n_tasks % I
    return T >= max_tpi


# ---------------------------------------------------------------------------
# execution
# ---------------------------------------------------------------------------
def launch_plans_here(configs):
    """Launch plans (node, input, result file, n_runs per task) of a list of
    args-mode configurations, as computed in THIS interpreter."""
    out = []
    for cfg in configs:
        o = execute_here(dict(cfg, mode='args'))
        out.append(o['info'].get('launch'))
    return out


def execute_hashseed(plan):
    """Every node of a real cluster run is its own Python interpreter with
    its own hash seed.  The launch plan (which task gets which input, file
    and trial count) is computed here and in fresh interpreters started
    under other PYTHONHASHSEED values; it must be the same everywhere,
    otherwise nodes disagree on the assignment and inputs get too many or
    too few trials."""
    import subprocess
    import sys as _sys
    sim = Sim(plan['seed'])
    violations = []
    path = f"/dev/shm/dst-hs-{os.getpid()}-{plan['seed'] % 10**8}.json"
    with sbx._real_open(path, 'w') as f:
        json.dump(plan['configs'], f)

    def in_subprocess(hs):
        env = dict(os.environ, PYTHONHASHSEED=str(hs), DST_NO_REEXEC='1')
        p = subprocess.run(
            [_sys.executable, os.path.join(runner.VERIF, 'dst', 'main.py'),
             PROP, '--launchplans', path], env=env, capture_output=True,
            text=True, timeout=900)
        for line in p.stdout.splitlines():
            if line.startswith('LAUNCHPLANS '):
                return json.loads(line[len('LAUNCHPLANS '):])
        raise HarnessError('launch-plan subprocess failed: '
                           + p.stderr[-800:])

    # the reference is always computed under the same hash seed (the one
    # the check runs with), also when the plan is replayed by an
    # interpreter started under another one: replay stays exact
    ref_hs = str(plan.get('reference_hashseed', '0'))
    if os.environ.get('PYTHONHASHSEED') == ref_hs:
        here = launch_plans_here(plan['configs'])
    else:
        here = in_subprocess(ref_hs)
    try:
        for hs in plan['hashseeds']:
            there = in_subprocess(hs)
            sim.probe('launch_plan_recomputed_under_other_hash_seed',
                      len(there))
            for cfg, a, b in zip(plan['configs'], here, there):
                if json.loads(canon(a)) != json.loads(canon(b)):
                    violations.append({
                        'class': 'launch_plan_depends_on_interpreter_'
                                 'hash_seed',
                        'detail': {'config': {k: cfg[k] for k in (
                            'n_inputs', 'n_nodes', 'n_cores', 'trials')},
                            'hash_seeds': [ref_hs, str(hs)]}})
                    break
            if violations:
                break
    finally:
        try:
            sbx._real_remove(path)
        except OSError:
            pass
    sim.log.add('hashseed', 'result', [len(plan['configs']),
                                       canon(violations)])
    return {'violations': violations, 'fingerprint': sim.log.fingerprint(),
            'states': [digest(['hashseed', len(plan['configs'])])],
            'fault_counts': {}, 'probes': sim.probes, 'info': {},
            'steps': 0, 'switches': 0, 'n_trials': 0, 'sim_seconds': 0.0}


def execute_here(plan, keep_events=False):
    if plan.get('mode') == 'hashseed':
        return execute_hashseed(plan)
    sim = Sim(plan['seed'], keep_events=keep_events)
    sb = sbx.Sandbox(sim, bufsize=plan.get('bufsize', 8192))
    violations = []
    states = set()
    info = {}

    def violate(cls, detail):
        violations.append({'class': cls, 'detail': detail})

    I, N, C, T = (plan['n_inputs'], plan['n_nodes'], plan['n_cores'],
                  plan['trials'])
    mode = plan['mode']
    # (a dot in a directory name is legal and common: sweep_eta0.5/)
    data_dir = sb.path(plan.get('dir_name', 'data'))
    inputs = []
    ident_of_input = {}
    for i in range(I):
        spec = plan['inputs'][i] if plan.get('inputs') else input_spec(i)
        name = f'input_{i:02d}.json'
        path = os.path.join(data_dir, 'inputs', name)
        sb.write_bytes(path, canon(spec).encode())
        inputs.append(path)
    rng = stream(plan['seed'], 'sched')
    sched = None
    if mode == 'full':
        sched = kernel.Scheduler(
            sim, rng, policy=plan.get('policy', 'random'),
            max_steps=plan.get('max_steps') or (
                4000 + 60 * N * C * (T + 2) * 4))
    cl = cluster.Cluster(sim, mode, plan.get('cpu_count', C),
                         plan.get('listing_perm'), sched)
    _dt = stream(plan['seed'], 'trial_dt')
    ledger = seams.Ledger(sim, trial_dt=lambda p: _dt.choice(
        [0.001, 0.01, 0.25]))
    node_results = {}
    sb.install()
    seams.install_entropy(plan['seed'])
    seams.install_clock(sim.clock)
    ledger.install()
    cl.install()
    gc_was = gc.isenabled()
    gc.disable()      # finalisers run at chosen points only (see C12)
    try:
        if mode == 'args':
            for j in range(1, N + 1):
                proc = sim.new_proc(f'node{j}')
                proc.node, proc.round = j, 0
                kernel.set_current(proc)
                try:
                    cl.node_call(data_dir, T, N, j,
                                 None if plan.get('cores_unspecified') else C,
                                 plan.get('delete_existing', False))
                    node_results[(0, j)] = 'returned'
                except HarnessError:
                    raise
                except Exception as e:
                    node_results[(0, j)] = [type(e).__name__,
                                            sb.scrub(e)[:200]]
                finally:
                    kernel.set_current(None)
        else:
            preempts = plan.get('preempt') or []
            sched.pending_preempt = [(p['step'], p['node'])
                                     for p in preempts]
            nodes = list(range(1, N + 1))
            rnd = 0
            while nodes:
                if rnd >= 3:
                    sched.pending_preempt = []     # faults stop
                tasks = {}
                for j in nodes:
                    proc = sim.new_proc(f'node{j}r{rnd}')
                    proc.node, proc.round = j, rnd

                    def body(j=j):
                        cl.node_call(data_dir, T, N, j, C,
                                     plan.get('delete_existing', False))
                    tasks[j] = sched.spawn(proc.name, body, proc=proc,
                                           group=j)
                ok = sched.run()
                gc.collect(0)
                if not ok:
                    violate('no_progress', {'hang': sched.hang,
                                            'steps': sched.steps,
                                            'round': rnd})
                    sched.abandon()
                    break
                killed = set()
                for j, t in tasks.items():
                    if t.exc is None:
                        node_results[(rnd, j)] = 'returned'
                    elif t.exc == 'SimKill':
                        node_results[(rnd, j)] = 'killed'
                        killed.add(j)
                    elif isinstance(t.exc, HarnessError):
                        raise t.exc
                    else:
                        node_results[(rnd, j)] = [type(t.exc).__name__,
                                                  sb.scrub(t.exc)[:200]]
                killed |= {r['node'] for r in cl.launched
                           if r['round'] == rnd and r.get('proc') is not None
                           and r['proc'].dead}
                # pre-empted jobs are resubmitted with the same arguments
                nodes = sorted(killed)
                rnd += 1
        judge(plan, sim, sb, cl, ledger, node_results, violations, states,
              info, data_dir, inputs)
    finally:
        if gc_was:
            gc.enable()
        cl.uninstall()
        ledger.uninstall()
        seams.uninstall_clock()
        seams.uninstall_entropy()
        kernel.set_current(None)
        sb.destroy()
    return {
        'violations': violations,
        'fingerprint': sim.log.fingerprint(),
        'states': sorted(states),
        'fault_counts': sim.fault_counts,
        'probes': sim.probes,
        'info': info,
        'steps': sched.steps if sched else 0,
        'switches': sched.switches if sched else 0,
        'n_trials': sum(len(v) for d in ledger.by_proc.values()
                        for v in d.values()),
        'sim_seconds': sim.clock.now() - 1_700_000_000.0,
    }


def execute(plan, **kw):
    """One plan = one simulated process image: run in a forked child."""
    return runner.isolated(execute_here, plan, **kw)


def judge(plan, sim, sb, cl, ledger, node_results, violations, states, info,
          data_dir, inputs):
    I, N, C, T = (plan['n_inputs'], plan['n_nodes'], plan['n_cores'],
                  plan['trials'])
    mode = plan['mode']

    def violate(cls, detail):
        violations.append({'class': cls, 'detail': detail})

    if not cl.launched and all(r == 'returned'
                               for r in node_results.values()):
        raise HarnessError('run-parallel returned without starting a single '
                           'process through the multiprocessing seam')
    # (1) nothing raises
    for (rnd, j), r in sorted(node_results.items()):
        if r not in ('returned', 'killed'):
            violate('node_raised', {'node': j, 'round': rnd, 'exc': r[0],
                                    'msg': r[1]})
    for rec in cl.launched:
        if rec['exc'] is not None:
            violate('task_raised', {'exc': rec['exc'][0],
                                    'msg': sb.scrub(rec['exc'][1])})
    if violations:
        return
    # the launch plan of the last round in which each node ran
    last_round = {}
    for rec in cl.launched:
        last_round[rec['node']] = max(last_round.get(rec['node'], 0),
                                      rec['round'])
    final = [r for r in cl.launched if r['round'] == last_round[r['node']]]
    # judged launch plan: for every node the launches of its last (never
    # pre-empted) invocation; an earlier, pre-empted invocation must have
    # launched a prefix of the same plan
    first = final
    if len(first) != N * C:
        violate('wrong_number_of_tasks', {'launched': len(first),
                                          'expected': N * C})
    # (2) own result file, (3) at least one trial
    seen_files = {}
    per_input = {}
    for rec in first:
        inp, res, n_runs = rec['args'][0], rec['args'][1], rec['args'][2]
        # (only the result file: the statement does not speak of the
        # progress log)
        if res in seen_files:
            violate('file_shared_between_tasks', {'file': sb.rel(res)})
        seen_files[res] = rec
        if n_runs < 1:
            violate('task_without_trials', {'n_runs': n_runs})
        if inp not in inputs:
            violate('unknown_input', {'input': sb.rel(inp)})
        per_input.setdefault(inp, []).append(n_runs)
    # (4) per input the tasks' trials sum to T
    for inp in inputs:
        runs = per_input.get(inp, [])
        if sum(runs) != T:
            violate('wrong_total_trials', {
                'sum': sum(runs), 'n_tasks_for_input': len(runs)})
    states.add(digest([I, N, C, T % max(1, (N * C) // I),
                       (N * C) % I, mode]))
    info['split'] = {sb.rel(k): v for k, v in per_input.items()}
    info['launch'] = [[r['node'], sb.rel(r['args'][0]), sb.rel(r['args'][1]),
                       r['args'][2]] for r in first]
    # a resubmitted node must launch exactly what it launched first
    for j in {r['node'] for r in cl.launched if r['round'] > 0}:
        a = [(r['args'][0], r['args'][1], r['args'][2])
             for r in cl.launched if r['node'] == j and r['round'] == 0]
        b = [(r['args'][0], r['args'][1], r['args'][2]) for r in final
             if r['node'] == j]
        if a != b[:len(a)]:
            violate('resubmission_differs', {'node': j})
        sim.probe('node_resubmitted')
    if mode != 'full' or violations:
        return
    # file level: every identity of every input has exactly T trials in the
    # union of result files, equal as a multiset to ledger entries
    from panqec.simulation import read_input_json   # identities via real code
    pool = {}     # identity -> list of payloads executed anywhere
    for pid, d in ledger.by_proc.items():
        for x, seq in d.items():
            pool.setdefault(x, []).extend(seq)
    have = {}
    for rec in first:
        res = rec['args'][1]
        data = sb.read_bytes(res)
        cls, doc = parse_results_bytes(data, res)
        if cls != 'intact':
            violate('result_file_missing_or_torn',
                    {'file': sb.rel(res), 'state': cls})
            continue
        S, problems = records_to_model(doc)
        for p in problems:
            violate('file_' + p[0], {'file': sb.rel(res)})
        n_runs = rec['args'][2]
        for x, r in S.items():
            if len(r['seq']) != n_runs:
                violate('task_file_wrong_count', {
                    'file': sb.rel(res), 'have': len(r['seq']),
                    'n_runs': n_runs})
            have.setdefault(x, []).extend(r['seq'])
    want_ids = set()
    for inp in inputs:
        with open(inp) as f:
            spec = json.load(f)
        for x in spec_identities(spec):
            want_ids.add(x)
    for x in sorted(want_ids):
        got = have.get(x, [])
        if len(got) != T:
            violate('identity_wrong_total', {'have': len(got), 'want': T})
            continue
        avail = {}
        for p in pool.get(x, []):
            k = canon(p)
            avail[k] = avail.get(k, 0) + 1
        for p in got:
            k = canon(p)
            if avail.get(k, 0) <= 0:
                violate('trial_not_in_ledger', {'identity': x})
                break
            avail[k] -= 1
    for x in have:
        if x not in want_ids:
            violate('foreign_identity_in_results', {'identity': x})


_ident_cache = {}


def spec_identities(spec):
    """Identities of the simulations of a spec, computed with real panqec
    objects (memoised)."""
    k = canon(spec)
    if k not in _ident_cache:
        from panqec.simulation import read_input_dict
        b = read_input_dict(json.loads(k), '/nonexistent/out.json',
                            verbose=False)
        _ident_cache[k] = [
            seams.identity_of(s.code, s.error_model, s.decoder, s.error_rate)
            for s in b]
    return _ident_cache[k]


# ---------------------------------------------------------------------------
# jobs
# ---------------------------------------------------------------------------
def args_box(tier):
    if tier == 'quick':
        return dict(I=5, N=4, C=8, T=60)
    return dict(I=7, N=6, C=12, T=150)


def run_args_block(job):
    """Enumerate all (C, T) for one (I, N) in args mode."""
    I, N, box, seed = job['I'], job['N'], job['box'], job['seed']
    summ = new_summary()
    rng = stream(seed, 'args', I, N)
    for C in range(1, box['C'] + 1):
        for T in range(1, box['T'] + 1):
            if not precondition(I, N, C, T):
                continue
            perm = list(range(I))
            rng.shuffle(perm)
            plan = {'property': PROP, 'seed': H(seed, I, N, C, T),
                    'mode': 'args', 'n_inputs': I, 'n_nodes': N,
                    'n_cores': C, 'trials': T,
                    'cpu_count': C + rng.choice([0, 0, 1, 8]),
                    'delete_existing': rng.random() < 0.3,
                    'listing_perm': perm}
            if rng.random() < 0.2:
                # -c not given: the command uses every CPU of the node
                plan['cores_unspecified'] = True
                plan['cpu_count'] = C
            o = execute(plan)
            absorb(summ, plan, o)
    return pack(summ)


def gen_full_plan(seed):
    rng = stream(seed, 'full')
    while True:
        I = rng.choice([1, 1, 2, 2, 3, 4])
        N = rng.choice([1, 2, 2, 3])
        C = rng.choice([1, 2, 3, 4])
        T = rng.randint(1, 12)
        if precondition(I, N, C, T):
            break
    perm = list(range(I))
    rng.shuffle(perm)
    plan = {'property': PROP, 'seed': seed, 'mode': 'full', 'n_inputs': I,
            'n_nodes': N, 'n_cores': C, 'trials': T, 'cpu_count': C + 2,
            'listing_perm': perm,
            'policy': rng.choice(kernel.Scheduler.POLICIES),
            'bufsize': rng.choice([64, 8192]),
            'inputs': [input_spec(i, n_rates=rng.choice([1, 1, 2]))
                       for i in range(I)],
            # every node of the job array runs the same command line, so the
            # flag is either on for all of them or for none
            'delete_existing': rng.random() < 0.35,
            'dir_name': rng.choice(['data', 'data', 'sweep_eta0.5',
                                    'run.v2/data']),
            'preempt': []}
    if rng.random() < 0.6:
        for _ in range(rng.choice([1, 1, 2])):
            plan['preempt'].append({'node': rng.randint(1, N),
                                    'step': rng.randint(1, 3 * C * T + 20)})
    return plan


def run_full_block(job):
    summ = new_summary()
    for s in job['seeds']:
        plan = gen_full_plan(s)
        o = execute(plan)
        absorb(summ, plan, o)
        summ['full_runs'] += 1
        summ['sched_steps'] += o['steps']
        summ['switches'] += o['switches']
        if summ['sample_full'] is None or (
                plan['preempt'] and not summ['sample_full'].get('preempt')):
            summ['sample_full'] = {
                k: plan[k] for k in ('n_inputs', 'n_nodes', 'n_cores',
                                     'trials', 'policy', 'preempt',
                                     'listing_perm', 'delete_existing')}
            summ['sample_full']['split'] = o['info'].get('split')
            summ['sample_full']['scheduler_steps'] = o['steps']
    return pack(summ)


def new_summary():
    return {'runs': 0, 'violations': [], 'states': set(), 'fault_counts': {},
            'probes': {}, 'trials': 0, 'full_runs': 0, 'sched_steps': 0,
            'switches': 0, 'sample_full': None, 'sample_args': None,
            'seen': set(), 'sim_seconds': 0.0}


def absorb(summ, plan, o):
    summ['runs'] += 1
    summ['states'].update(o['states'])
    summ['trials'] += o['n_trials']
    summ['sim_seconds'] += o.get('sim_seconds', 0.0)
    for k, v in o['fault_counts'].items():
        summ['fault_counts'][k] = summ['fault_counts'].get(k, 0) + v
    for k, v in o['probes'].items():
        summ['probes'][k] = summ['probes'].get(k, 0) + v
    if plan['mode'] == 'args' and summ['sample_args'] is None \
            and plan['n_cores'] > 2 and plan['trials'] > 7:
        summ['sample_args'] = {
            'n_inputs': plan['n_inputs'], 'n_nodes': plan['n_nodes'],
            'n_cores': plan['n_cores'], 'trials': plan['trials'],
            'split': o['info'].get('split')}
    for v in o['violations']:
        key = canon(signature(plan, v))
        if key not in summ['seen']:
            summ['seen'].add(key)
            summ['violations'].append({'plan': plan, 'violation': v})


def pack(summ):
    summ['states'] = sorted(summ['states'])
    summ.pop('seen')
    return summ


def gen_hashseed_plan(seed):
    rng = stream(seed, 'hashseed')
    configs = []
    while len(configs) < 16:
        I, N, C = rng.randint(2, 5), rng.randint(2, 4), rng.randint(1, 4)
        T = rng.randint(1, 40)
        if not precondition(I, N, C, T):
            continue
        configs.append({'property': PROP, 'seed': H(seed, len(configs)),
                        'mode': 'args', 'n_inputs': I, 'n_nodes': N,
                        'n_cores': C, 'trials': T, 'cpu_count': C,
                        'listing_perm': list(range(I))})
    return {'property': PROP, 'seed': seed, 'mode': 'hashseed',
            'configs': configs, 'reference_hashseed': '0',
            'hashseeds': [rng.randrange(1, 10**6), rng.randrange(1, 10**6)]}


def run_hashseed_block(job):
    summ = new_summary()
    for s in job['seeds']:
        plan = gen_hashseed_plan(s)
        o = execute(plan)
        absorb(summ, plan, o)
    return pack(summ)


def run_job(job):
    if job['kind'] == 'args':
        return run_args_block(job)
    if job['kind'] == 'hashseed':
        return run_hashseed_block(job)
    return run_full_block(job)


def make_jobs(tier, seed):
    box = args_box(tier)
    jobs = []
    n_full = 480 if tier == 'quick' else 12000
    per = 10
    for b in range(n_full // per):
        jobs.append({'kind': 'full', 'seeds': [
            H(seed, PROP, 'full', b * per + i) for i in range(per)]})
    n_hs = 2 if tier == 'quick' else 12
    jobs = [{'kind': 'hashseed', 'seeds': [H(seed, PROP, 'hs', i)]}
            for i in range(n_hs)] + jobs
    for I in range(1, box['I'] + 1):
        for N in range(1, box['N'] + 1):
            jobs.append({'kind': 'args', 'I': I, 'N': N, 'box': box,
                         'seed': seed})
    return jobs


WALL_BUDGET = {'quick': 120, 'thorough': 1500}
JOB_TIMEOUT = 900


def determinism_plans(seed, n):
    out = []
    i = 0
    while len(out) < n:
        p = gen_full_plan(H(seed, PROP, 'det', i))
        i += 1
        out.append(p)
    return out


def new_aggregate():
    a = new_summary()
    a.pop('seen')
    a['args_runs'] = 0
    a['samples'] = []
    return a


def aggregate(agg, r):
    agg['runs'] += r['runs']
    agg['violations'] += r['violations']
    agg['states'].update(r['states'])
    for k in ('trials', 'full_runs', 'sched_steps', 'switches',
              'sim_seconds'):
        agg[k] += r[k]
    for k, v in r['fault_counts'].items():
        agg['fault_counts'][k] = agg['fault_counts'].get(k, 0) + v
    for k, v in r['probes'].items():
        agg['probes'][k] = agg['probes'].get(k, 0) + v
    for k in ('sample_full', 'sample_args'):
        if r[k] and len(agg['samples']) < 6:
            agg['samples'].append({k: r[k]})


def explains_nondeterminism(violations):
    """A fingerprint that differs between interpreters is normally a defect
    of the simulator (exit 2).  If the hash-seed oracle has itself shown that
    the launch plan of the code under test depends on the interpreter's hash
    seed, the difference is explained by that violation."""
    return any(v['violation']['class'] ==
               'launch_plan_depends_on_interpreter_hash_seed'
               for v in violations)


def signature(plan, v):
    d = v.get('detail') or {}
    sig = {'class': v['class'], 'mode': plan['mode']}
    if 'exc' in d:
        sig['exc'] = d['exc']
    return sig


def shrink(plan, want_sig, max_exec=150):
    if plan.get('mode') == 'hashseed':
        # keep the first configuration that shows it
        for cfg in plan['configs']:
            q = dict(plan, configs=[cfg])
            try:
                o = execute(q)
            except HarnessError:
                continue
            if any(signature(q, v) == want_sig for v in o['violations']):
                return q, 1
        return plan, len(plan['configs'])
    best = copy.deepcopy(plan)
    n_exec = [0]

    def fails(p):
        if n_exec[0] >= max_exec:
            return False
        if not precondition(p['n_inputs'], p['n_nodes'], p['n_cores'],
                            p['trials']):
            return False
        n_exec[0] += 1
        try:
            o = execute(p)
        except HarnessError:
            return False
        return any(signature(p, v) == want_sig for v in o['violations'])

    def candidates(p):
        if p.get('preempt'):
            for i in range(len(p['preempt'])):
                q = copy.deepcopy(p)
                del q['preempt'][i]
                yield q
        for key, lo in (('n_inputs', 1), ('n_nodes', 1), ('n_cores', 1),
                        ('trials', 1)):
            for val in (lo, p[key] // 2, p[key] - 1):
                if lo <= val < p[key]:
                    q = copy.deepcopy(p)
                    q[key] = val
                    if key == 'n_inputs':
                        q['listing_perm'] = list(range(val))
                        if q.get('inputs'):
                            q['inputs'] = q['inputs'][:val]
                    if key == 'n_cores':
                        q['cpu_count'] = max(val, min(q['cpu_count'], val))
                    if q.get('preempt'):
                        q['preempt'] = [x for x in q['preempt']
                                        if x['node'] <= q['n_nodes']]
                    yield q
        if p.get('delete_existing'):
            q = copy.deepcopy(p)
            q['delete_existing'] = False
            yield q
        if p.get('policy') not in (None, 'round_robin'):
            q = copy.deepcopy(p)
            q['policy'] = 'round_robin'
            yield q
        if p.get('listing_perm') != sorted(p.get('listing_perm') or []):
            q = copy.deepcopy(p)
            q['listing_perm'] = sorted(q['listing_perm'])
            yield q
        for pr in range(len(p.get('preempt') or [])):
            st = p['preempt'][pr]['step']
            for val in (1, st // 2):
                if 1 <= val < st:
                    q = copy.deepcopy(p)
                    q['preempt'][pr]['step'] = val
                    yield q

    improved = True
    while improved and n_exec[0] < max_exec:
        improved = False
        for q in candidates(best):
            if fails(q):
                best = q
                improved = True
                break
    return best, n_exec[0]


def evidence(tier, agg, wall):
    box = args_box(tier)
    cov = {
        'evaluations': agg['runs'],
        'distinct_nontrivial': len(agg['states']),
        'rule': (
            'one evaluation = one simulated cluster run: N invocations of '
            'the real run-parallel command body with the multiprocessing / '
            'glob / tqdm seams.  args mode enumerates every (inputs, N, C, T)'
            f" with inputs<={box['I']}, N<={box['N']}, C<={box['C']}, "
            f"T<={box['T']} satisfying N*C>=inputs and T>=tasks-per-input "
            '(all job indices 1..N, seeded listing permutation and '
            'cpu_count); full mode runs seeded configurations with real '
            'run_file workers as scheduled tasks, 5 scheduler policies and '
            'node pre-emption + resubmission.  distinct_nontrivial = '
            'distinct (inputs, N, C, T mod tasks-per-input, tasks mod '
            'inputs, mode) classes reached'),
        'samples': agg['samples'] or [{'note': 'none'}],
        'args_mode_exhaustive_in_box': True,
        'simulated_runs': agg['runs'],
        'full_mode_cluster_runs': agg['full_runs'],
        'simulated_runs_per_hour': int(agg['runs'] / max(wall, 1e-9) * 3600),
        'simulated_seconds_covered': round(agg['sim_seconds'], 1),
        'scheduler_steps': agg['sched_steps'],
        'task_switches': agg['switches'],
        'trials_executed_by_workers': agg['trials'],
        'faults_fired': dict(sorted(agg['fault_counts'].items())),
        'reach_probes': dict(sorted(agg['probes'].items())),
        'real_vs_stub': {
            'real': ['panqec.cli.run_parallel (command body)', 'run_file',
                     'BatchSimulation / DirectSimulation / run_once',
                     'Toric2DCode, PauliErrorModel, MatchingDecoder',
                     'save_json / load_json'],
            'simulated': ['multiprocessing.Process / cpu_count',
                          'scheduling of nodes and workers (baton-passing '
                          'threads)', 'job pre-emption and resubmission',
                          'glob listing order', 'tqdm', 'raw write path, '
                          'OS entropy, wall clock', 'click option parsing '
                          '(the callback is called directly because '
                          'CliRunner swaps sys.stdout process-wide)'],
        },
        'exhaustive': False,
    }
    assumptions = [
        'all nodes of one cluster run observe the same listing order of '
        'inputs/ (the code calls an unsorted glob; the property does not '
        'quantify over differing orders)',
        'a pre-empted job is resubmitted with the same arguments',
    ]
    return 'exploration', cov, assumptions
