"""C12 - interrupted batch runs resume without losing or duplicating trials.

Workload: a chain of incarnations (simulated OS processes, or re-runs of the
same BatchSimulation object after an absorbed KeyboardInterrupt) of the real
entry points on one results file inside the instrumented sandbox.  Faults:
kill at any file-system event (with tear classes inside raw writes), kill or
KeyboardInterrupt at trial boundaries, KeyboardInterrupt at any traced line,
KeyboardInterrupt inside a raw write (optionally a second one inside the retry
save).  Oracle: trial ledger + last-completed-save model (DESIGN.md section 4).
"""
import copy
import gc
import gzip
import json
import os

import numpy as np

from dst import kernel, sandbox as sbx, seams, runner
from dst.kernel import Sim, SimKill, HarnessError, stream, canon, digest, H

PROP = 'C12'

# ---------------------------------------------------------------------------
# workload generation
# ---------------------------------------------------------------------------
CODES_2D = [
    ('Toric2DCode', [2, 2]), ('Toric2DCode', [3, 2]), ('Toric2DCode', [2, 3]),
    ('Toric2DCode', [3, 3]), ('Planar2DCode', [2, 2]),
    ('Planar2DCode', [3, 2]), ('RotatedPlanar2DCode', [3, 3]),
    ('RotatedPlanar2DCode', [2, 3]),
    ('Toric3DCode', [2, 2, 2]), ('Toric3DCode', [2, 3, 2]),
]
DECODERS_FOR = {
    'Toric2DCode': ['MatchingDecoder', 'BeliefPropagationOSDDecoder',
                    'UnionFindDecoder'],
    'Planar2DCode': ['MatchingDecoder', 'BeliefPropagationOSDDecoder'],
    'RotatedPlanar2DCode': ['MatchingDecoder', 'BeliefPropagationOSDDecoder'],
    # (in the workload since the sweep tie-break crash, owned by C10, was
    # repaired - see the attribution rule in DESIGN.md section 4)
    'Toric3DCode': ['SweepMatchDecoder', 'BeliefPropagationOSDDecoder'],
}


def _size_dict(s):
    return dict(zip(('L_x', 'L_y', 'L_z'), s))
RATES = [0.05, 0.1, 0.15, 0.2, 0.3]
DIRECTIONS = [
    {'r_x': 1/3, 'r_y': 1/3, 'r_z': 1/3},
    {'r_x': 0.0, 'r_y': 0.0, 'r_z': 1.0},
    {'r_x': 1.0, 'r_y': 0.0, 'r_z': 0.0},
    {'r_x': 0.25, 'r_y': 0.25, 'r_z': 0.5},
]


def _decoder_params(rng, name):
    if name == 'BeliefPropagationOSDDecoder':
        return {'max_bp_iter': rng.choice([5, 10]), 'osd_order': 0}
    return {}


def gen_ranges(rng, n_sims_max=4):
    """One 'ranges' dict in the format panqec's input files use."""
    cname = rng.choice(sorted(DECODERS_FOR))
    sizes = [s for c, s in CODES_2D if c == cname]
    rng.shuffle(sizes)
    n_sizes = rng.choice([1, 1, 2])
    sizes = sizes[:n_sizes]
    dname = rng.choice(DECODERS_FOR[cname])
    n_rates = max(1, min(n_sims_max // n_sizes, rng.choice([1, 1, 2, 3])))
    rates = rng.sample(RATES, n_rates)
    noise = dict(rng.choice(DIRECTIONS))
    if rng.random() < 0.25:
        noise['deformation_name'] = 'XZZX'
    if rng.random() < 0.5:
        code_params = [_size_dict(s) for s in sizes]
    else:
        code_params = [list(s) for s in sizes]
    r = {
        'label': 'w',
        'code': {'name': cname, 'parameters': code_params},
        'error_model': {'name': 'PauliErrorModel', 'parameters': [noise]},
        'decoder': {'name': dname, 'parameters': _decoder_params(rng, dname)},
        'error_rate': rates,
    }
    if not r['decoder']['parameters'] and rng.random() < 0.5:
        del r['decoder']['parameters']
    return r


def ranges_to_runs(r):
    runs = []
    for noise in r['error_model']['parameters']:
        for p in r['error_rate']:
            for cp in r['code']['parameters']:
                run = {
                    'code': {'name': r['code']['name'], 'parameters': cp},
                    'error_model': {'name': 'PauliErrorModel',
                                    'parameters': noise},
                    'decoder': {'name': r['decoder']['name']},
                    'error_rate': p,
                }
                if 'parameters' in r['decoder']:
                    run['decoder']['parameters'] = dict(
                        r['decoder']['parameters'])
                runs.append(run)
    return runs


def gen_spec(rng):
    form = rng.choice(['ranges', 'ranges', 'ranges_list', 'runs'])
    if form == 'ranges':
        return {'ranges': gen_ranges(rng)}
    if form == 'runs':
        return {'runs': ranges_to_runs(gen_ranges(rng, 3))}
    a, b = gen_ranges(rng, 2), gen_ranges(rng, 2)
    if canon(a['code']['name']) == canon(b['code']['name']):
        b['decoder'] = copy.deepcopy(a['decoder'])
        b['error_rate'] = [p for p in RATES if p not in a['error_rate']][:1]
    return {'ranges': [a, b]}


def grow_spec(rng, spec):
    """The same specification with new sizes / rates appended (and possibly
    shuffled): what a user does to extend a study."""
    spec = copy.deepcopy(spec)
    if 'runs' in spec:
        extra = ranges_to_runs(gen_ranges(rng, 1))
        have = {canon(r) for r in spec['runs']}
        spec['runs'] += [r for r in extra if canon(r) not in have]
        if rng.random() < 0.5:
            rng.shuffle(spec['runs'])
        return spec
    rr = spec['ranges'] if isinstance(spec['ranges'], list) \
        else [spec['ranges']]
    r = rng.choice(rr)
    if rng.random() < 0.5:
        new = [p for p in RATES if p not in r['error_rate']]
        if new:
            r['error_rate'] = r['error_rate'] + [rng.choice(new)]
    else:
        cname = r['code']['name']
        have = [canon(x) for x in r['code']['parameters']]
        as_dict = isinstance(r['code']['parameters'][0], dict)
        for c, s in CODES_2D:
            cp = _size_dict(s) if as_dict else list(s)
            if c == cname and canon(cp) not in have:
                r['code']['parameters'] = r['code']['parameters'] + [cp]
                break
    if rng.random() < 0.3:
        rng.shuffle(r['error_rate'])
    return spec


def sibling_spec(rng, spec):
    """Same codes, but a different decoder parameter / noise direction /
    deformation / error rate: its records are *foreign* to the original."""
    spec = copy.deepcopy(spec)
    if 'runs' in spec:
        for r in spec['runs']:
            r['error_rate'] = round(r['error_rate'] + 0.01, 4)
        return spec
    rr = spec['ranges'] if isinstance(spec['ranges'], list) \
        else [spec['ranges']]
    for r in rr:
        kind = rng.choice(['noise', 'rate', 'decoder', 'deform',
                           'rate_eps'])
        if kind == 'rate_eps':
            # an error rate that differs in the ninth digit is a different
            # simulation
            r['error_rate'] = [p + 1e-9 for p in r['error_rate']]
            continue
        if kind == 'noise':
            for nz in r['error_model']['parameters']:
                d = rng.choice([d for d in DIRECTIONS
                                if abs(d['r_z'] - nz['r_z']) > 1e-9])
                nz.update(d)
        elif kind == 'rate':
            r['error_rate'] = [round(p + 0.01, 4) for p in r['error_rate']]
        elif kind == 'deform':
            for nz in r['error_model']['parameters']:
                if nz.get('deformation_name'):
                    del nz['deformation_name']
                else:
                    nz['deformation_name'] = 'XZZX'
        else:
            if r['decoder']['name'] == 'BeliefPropagationOSDDecoder':
                prm = r['decoder'].setdefault('parameters', {})
                prm['max_bp_iter'] = 7
            elif r['decoder']['name'] == 'MatchingDecoder':
                r['decoder']['name'] = 'BeliefPropagationOSDDecoder'
                r['decoder']['parameters'] = {'max_bp_iter': 5,
                                              'osd_order': 0}
            else:
                r['error_rate'] = [round(p + 0.01, 4)
                                   for p in r['error_rate']]
    return spec


_ident_memo = {}


def spec_identities(spec):
    """Identities of the simulations a spec expands to, computed with real
    panqec objects (so that list / dict parameter forms and defaults are
    compared the way panqec compares them)."""
    k = canon(spec)
    if k not in _ident_memo:
        from panqec.simulation import read_input_dict
        import contextlib
        import io
        with contextlib.redirect_stdout(io.StringIO()):
            b = read_input_dict(json.loads(k), '/nonexistent/out.json',
                                verbose=False)
        _ident_memo[k] = [seams.identity_of(s.code, s.error_model, s.decoder,
                                            s.error_rate) for s in b]
        if len(_ident_memo) > 5000:
            _ident_memo.clear()
    return _ident_memo[k]


def without_duplicates(spec):
    """A specification that lists the same (code, noise, decoder, rate)
    twice is a user error outside the property; the generator never emits
    one.  Duplicates are removed by rewriting the spec in explicit 'runs'
    form."""
    ids = spec_identities(spec)
    if len(set(ids)) == len(ids):
        return spec
    runs = _spec_runs(spec)
    if len(runs) != len(ids):
        # expansion order differs from ours: fall back to pairwise test
        keep, seen = [], set()
        for r in runs:
            i = spec_identities({'runs': [r]})[0]
            if i not in seen:
                seen.add(i)
                keep.append(r)
        return {'runs': keep}
    keep, seen = [], set()
    for r in runs:
        i = spec_identities({'runs': [r]})[0]
        if i not in seen:
            seen.add(i)
            keep.append(r)
    return {'runs': keep}


def two_holders_workload(rng, seed):
    """Two holders of one results file: an object A is paused (possibly
    with unsaved trials: save_frequency > 1), another process B resumes the
    same specification on the file and saves, then A.run() is called again;
    a last fresh process finishes."""
    knobs = {
        'ext': rng.choice(['.json', '.json.gz']),
        'bufsize': rng.choice([512, 8192]),
        'save_frequency': rng.choice([2, 3, 5]),
        'update_frequency': 5, 'entry': 'api', 'subdir': False,
    }
    spec = without_duplicates({'runs': _spec_runs(gen_spec(rng))[
        :rng.choice([1, 2])]})
    t1 = rng.randint(3, 8)
    t2 = t1 + rng.choice([0, 1, 2, 3])
    t3 = t2 + rng.choice([0, 1, 3, 4])
    t4 = t3 + rng.choice([0, 2])
    mk = lambda t, mode, **kw: dict({'op': 'run', 'spec': copy.deepcopy(spec),   # noqa: E731
                                     'target': t, 'mode': mode,
                                     'fault': None}, **kw)
    steps = [mk(t1, 'new'), mk(t2, 'new'), mk(t3, 'same_object', of=0),
             mk(t4, 'new')]
    return {'property': PROP, 'seed': seed, 'knobs': knobs, 'steps': steps}


def gen_workload(seed):
    """Fault-free skeleton of a plan: 2-5 incarnations with non-decreasing
    targets on one output file."""
    rng = stream(seed, 'workload')
    if rng.random() < 0.1:
        return two_holders_workload(rng, seed)
    tiny = rng.random() < 0.4
    knobs = {
        'ext': rng.choice(['.json', '.json.gz']),
        'bufsize': rng.choice([512, 8192] if tiny
                              else [16, 64, 64, 512, 8192]),
        'save_frequency': rng.choice([1, 1, 2, 3, 5]),
        'update_frequency': rng.choice([1, 5]),
        'entry': rng.choice(['api', 'api', 'run_file', 'cli']),
        'subdir': rng.random() < 0.3,
    }
    # the output file given as a bare file name, relative to the working
    # directory (what `panqec run -o results.json.gz` in a job script does)
    knobs['relative_out'] = (not knobs['subdir']) and rng.random() < 0.15
    n_inc = 2 if tiny else rng.choice([2, 3, 3, 4, 5])
    spec = gen_spec(rng)
    if tiny:
        spec = {'runs': _spec_runs(spec)[:rng.choice([1, 2])]}
    spec = without_duplicates(spec)
    target = rng.randint(1, 3) if tiny else rng.randint(1, 5)
    steps = []
    for i in range(n_inc):
        mode = 'new'
        if i > 0:
            r = rng.random()
            if r < 0.3:
                spec = without_duplicates(grow_spec(rng, spec))
            elif r < 0.45 and i < n_inc - 1:
                # excursion to a sibling spec, then back
                steps.append({'op': 'run', 'spec': without_duplicates(
                                  sibling_spec(rng, spec)),
                              'target': target, 'mode': 'new',
                              'fault': None})
            target += rng.choice([0, 0, 1, 2, 3])
            of = None
            if (knobs['entry'] == 'api' and steps[-1]['mode'] == 'new'
                    and canon(steps[-1]['spec']) == canon(spec)
                    and rng.random() < 0.3):
                mode = 'same_object'
                # two holders of one file: sometimes it is not the previous
                # incarnation's object that is resumed but an older one,
                # after another process has worked on the file in between
                if (len(steps) >= 2 and steps[-2]['mode'] == 'new'
                        and canon(steps[-2]['spec']) == canon(spec)
                        and rng.random() < 0.5):
                    of = len(steps) - 2
        st = {'op': 'run', 'spec': copy.deepcopy(spec),
              'target': target, 'mode': mode, 'fault': None}
        if mode == 'same_object' and of is not None:
            st['of'] = of
        steps.append(st)
    # stop / restart sequences in which the save frequency and the way the
    # run is launched change from one incarnation to the next (a first run
    # from the command line, resumed from a script with another checkpoint
    # interval ...); own stream, so the other workloads stay as they were
    mix = stream(seed, 'workload-mix')
    if mix.random() < 0.3:
        only_new = all(st['mode'] == 'new' for st in steps)
        for st in steps:
            if st['mode'] != 'new':
                continue
            if mix.random() < 0.6:
                st['save_frequency'] = mix.choice([1, 2, 3, 5, 7])
            if only_new and mix.random() < 0.5:
                st['entry'] = mix.choice(['api', 'run_file', 'cli'])
    return {'property': PROP, 'seed': seed, 'knobs': knobs, 'steps': steps}


# ---------------------------------------------------------------------------
# independent reading of a results file
# ---------------------------------------------------------------------------
def parse_results_bytes(data, path):
    """-> ('absent'|'empty'|'torn'|'intact', records or None).  Shares no
    code with panqec.utils."""
    if data is None:
        return 'absent', None
    if len(data) == 0:
        return 'empty', None
    try:
        if path.endswith('.gz'):
            data = gzip.decompress(data)
        doc = json.loads(data.decode('utf-8'))
    except Exception:
        return 'torn', None
    if not isinstance(doc, list):
        return 'torn', None
    return 'intact', doc


def records_to_model(doc):
    """list of {inputs, results} -> (identity -> payload list, problems)."""
    model, problems = {}, []
    for rec in doc:
        try:
            ident = seams.identity_of_inputs(rec['inputs'])
            res = rec['results']
            ee, su, cs = (res['effective_error'], res['success'],
                          res['codespace'])
            n = res['n_runs']
        except (KeyError, TypeError):
            problems.append(('malformed_record', canon(rec)[:200]))
            continue
        if not (len(ee) == len(su) == len(cs) == n):
            problems.append(('lists_unequal',
                             [ident, n, len(ee), len(su), len(cs)]))
        m = min(len(ee), len(su), len(cs))
        seq = [([int(v) for v in ee[j]], bool(su[j]), bool(cs[j]))
               for j in range(m)]
        if ident in model:
            problems.append(('duplicate_identity', ident))
        model[ident] = {'seq': seq, 'n_runs': n,
                        'lens': [len(ee), len(su), len(cs)]}
    return model, problems


# ---------------------------------------------------------------------------
# plan execution
# ---------------------------------------------------------------------------
class Inc:
    """Oracle context of one incarnation."""

    def __init__(self, idx, proc, mode, adopt, carry):
        self.idx = idx
        self.proc = proc
        self.mode = mode
        self.adopt = adopt      # identity -> seq that must be adopted (M)
        self.carry = carry      # same_object: identity -> in-memory seq
        self.batch = None
        self.constructed = False   # api entry: read_input_dict returned
        self.resumed = False       # its object was run() again later


class Exec:
    def __init__(self, plan, record_lines=False, keep_events=False,
                 only_first=False, real_kill=False, root=None):
        self.plan = plan
        self.knobs = plan['knobs']
        self.sim = Sim(plan['seed'], keep_events=keep_events)
        self.sim.real_kill = real_kill
        self.only_first = only_first
        self.root = root
        self.record_lines = record_lines
        self.violations = []
        self.M = {}                   # last completed save: ident -> seq
        self.have_save = False
        self.last_bytes_digest = None
        self.states = set()
        self.inc_info = []
        self.cur = None
        self.saves_seen = 0
        self.sim_seconds = 0.0

    # -- oracle -------------------------------------------------------------
    def violate(self, cls, detail):
        v = {'class': cls, 'inc': self.cur.idx if self.cur else None,
             'detail': detail}
        self.violations.append(v)

    def observe(self, when):
        """Parse the results file; if it holds a complete document that we
        have not judged yet, judge it as a completed save of the current
        incarnation and make it the new durable model."""
        data = self.sb.read_bytes(self.out)
        cls, doc = parse_results_bytes(data, self.out)
        if cls != 'intact':
            return cls
        # (digest of the parsed content without wall_time: the fingerprint
        # must not depend on how the code under test reads the clock)
        d = digest([{'inputs': r.get('inputs'), 'results': {
            k: v for k, v in (r.get('results') or {}).items()
            if k != 'wall_time'}} if isinstance(r, dict) else r
            for r in doc])
        self.sim.log.add('oracle', 'durable', [when, d])
        if d == self.last_bytes_digest:
            return cls
        self.last_bytes_digest = d
        self.saves_seen += 1
        S, problems = records_to_model(doc)
        for p in problems:
            self.violate('file_' + p[0], {'when': when, 'info': p[1]})
        self.check_save(S, when)
        self.M = {x: r['seq'] for x, r in S.items()}
        self.have_save = True
        return cls

    def check_save(self, S, when):
        inc = self.cur
        led = self.ledger
        if getattr(led, 'n_calls', 0) == 0 and any(
                r['seq'] for r in S.values()):
            raise HarnessError('results were saved but the trial ledger '
                               'never saw a trial: run_once seam not reached')
        for x, rec in S.items():
            seq = rec['seq']
            E = led.executed(inc.proc.pid, x)
            if inc.mode == 'new':
                P = inc.adopt.get(x, [])
                k = len(seq) - len(P)
                ok = (0 <= k <= len(E) and seq[:len(P)] == P
                      and seq[len(P):] == E[:k])
            else:
                # same object resumed: either it reloads what the file
                # holds (P) and adds new trials, or - if the file's record is
                # a prefix of what the object has in memory - it may keep
                # complete in-memory trials beyond the file
                base = inc.carry.get(x, [])
                P = inc.adopt.get(x, [])
                k = len(seq) - len(P)
                ok = (0 <= k <= len(E) and seq[:len(P)] == P
                      and seq[len(P):] == E[:k])
                if not ok and base[:len(P)] == P:
                    for j in range(len(P), len(base) + 1):
                        k = len(seq) - j
                        if 0 <= k <= len(E) and seq == base[:j] + E[:k]:
                            ok = True
                            break
            if ok:
                if x in self.M and len(seq) < len(self.M[x]):
                    self.violate('save_regressed', {
                        'when': when, 'identity': x,
                        'had': len(self.M[x]), 'now': len(seq)})
                if P:
                    self.sim.probe('resume_adopted_nonempty_prefix')
                continue
            # classify
            foreign = [y for y, s in self.M.items()
                       if y != x and s and seq[:len(s)] == s
                       and (not P or len(s) > len(P))]
            if x not in inc.adopt and foreign and seq[:1] != E[:1]:
                cls = 'foreign_adopted'
            elif P and seq[:len(P)] != P:
                cls = 'prefix_lost_or_changed'
            else:
                cls = 'trials_mismatch'
            self.violate(cls, {
                'when': when, 'identity': x, 'in_file': len(seq),
                'must_adopt': len(P), 'executed_here': len(E),
                'mode': inc.mode})

    # -- entry points -------------------------------------------------------
    def _run_entry(self, step, inc, prev):
        from panqec.simulation import read_input_dict, run_file
        entry = step.get('entry', self.knobs['entry'])
        if 'entry' in step or 'save_frequency' in step:
            self.sim.probe('launch_or_save_frequency_changed_between_runs')
        spec = json.loads(canon(step['spec']))
        n = step['target']
        if inc.mode == 'same_object':
            prev.batch.run(n, progress=seams.sim_progress)
            inc.batch = prev.batch
            return
        if entry == 'api':
            b = read_input_dict(
                spec, self.out_arg, verbose=False,
                save_frequency=step.get('save_frequency',
                                        self.knobs['save_frequency']),
                update_frequency=self.knobs['update_frequency'])
            inc.batch = b
            inc.constructed = True
            b.run(n, progress=seams.sim_progress)
        elif entry == 'run_file':
            self.sb.write_bytes(self.inp, canon(spec).encode())
            run_file(self.inp, self.out_arg, n, progress=seams.sim_progress,
                     log_file=self.logf if self.knobs['subdir'] else None)
        elif entry == 'cli':
            import panqec.cli as pcli
            from click.testing import CliRunner
            self.sb.write_bytes(self.inp, canon(spec).encode())
            old = pcli.tqdm
            pcli.tqdm = seams.sim_progress
            try:
                res = CliRunner().invoke(
                    pcli.cli, ['run', '-i', self.inp, '-o', self.out_arg,
                               '-t', str(n)], catch_exceptions=False)
            finally:
                pcli.tqdm = old
            if res.exit_code != 0:
                raise SystemExit(res.exit_code)
        else:
            raise HarnessError(f'unknown entry {entry}')

    def run(self):
        import panqec.simulation._batch_simulation as bsm
        sim = self.sim
        self.sb = sbx.Sandbox(sim, bufsize=self.knobs['bufsize'],
                              root=self.root)
        sub = 'results' if self.knobs['subdir'] else ''
        self.out = self.sb.path(sub, 'out' + self.knobs['ext']) if sub \
            else self.sb.path('out' + self.knobs['ext'])
        self.inp = self.sb.path('input.json')
        self.out_arg = self.out
        self._cwd = None
        if self.knobs.get('relative_out'):
            self._cwd = os.getcwd()
            os.chdir(self.sb.root)
            self.out_arg = 'out' + self.knobs['ext']
            sim.probe('output_file_relative_to_cwd')
        self.logf = self.sb.path('progress.txt')
        dt_rng = stream(sim.seed, 'trial_dt')
        self.ledger = seams.Ledger(
            sim, trial_dt=lambda proc: dt_rng.choice([0.001, 0.01, 0.25]))
        captured = []
        real_init = bsm.BatchSimulation.__init__

        def cap_init(obj, *a, **kw):
            real_init(obj, *a, **kw)
            captured.append(obj)

        def hook(proc, path):
            if path == self.out and self.cur is not None \
                    and proc is self.cur.proc and not proc.dead:
                self.observe('save')

        self.sb.durable_hook = hook
        self.sb.install()
        seams.install_entropy(sim.seed)
        seams.install_clock(sim.clock)
        self.ledger.install()
        bsm.BatchSimulation.__init__ = cap_init
        # Garbage collection is a seam too: an unclosed GzipFile (interrupt
        # between gzip.open() and the `with` entry) sits in a reference
        # cycle and is finalised - flushing its buffer into the file - only
        # when the cyclic collector happens to run.  The collector is
        # switched off during the run and invoked at the end of every
        # incarnation, which is when a real process would run finalisers.
        gc_was = gc.isenabled()
        gc.disable()
        try:
            self._run_steps(captured)
        finally:
            if gc_was:
                gc.enable()
            bsm.BatchSimulation.__init__ = real_init
            self.ledger.uninstall()
            seams.uninstall_clock()
            seams.uninstall_entropy()
            kernel.set_current(None)
            if self._cwd is not None:
                os.chdir(self._cwd)
            if self.root is None:
                self.sb.destroy()
            else:
                self.sb.uninstall()
        return self.outcome()

    def _run_steps(self, captured):
        sim = self.sim
        steps = self.plan['steps']
        if self.only_first:
            steps = steps[:1]
        prev = None
        incs = {}
        for idx, step in enumerate(steps):
            mode = step.get('mode', 'new')
            tgt = prev
            if mode == 'same_object' and step.get('of') is not None:
                tgt = incs.get(step['of'])
                if tgt is not None and tgt is not prev:
                    sim.probe('older_object_resumed_after_another_process')
            if mode == 'same_object' and (
                    tgt is None or tgt.batch is None or tgt.killed
                    or tgt.mode != 'new' or not tgt.constructed
                    or tgt.resumed):
                mode = 'new'
            proc = sim.new_proc(f'inc{idx}',
                                copy.deepcopy(step.get('fault')))
            adopt = dict(self.M)
            carry = {}
            if mode == 'same_object':
                tgt.resumed = True
                for x in set(tgt.adopt) | set(
                        self.ledger.by_proc.get(tgt.proc.pid, {})):
                    carry[x] = (tgt.adopt.get(x, []) +
                                self.ledger.executed(tgt.proc.pid, x))
                sim.probe('same_object_resume')
            inc = Inc(idx, proc, mode, adopt, carry)
            inc.killed = False
            self.cur = inc
            data = self.sb.read_bytes(self.out)
            fcls, _ = parse_results_bytes(data, self.out)
            f = step.get('fault') or {}
            self.states.add(digest([
                fcls, sorted(len(s) for s in self.M.values()),
                f.get('kind'), f.get('at'), f.get('tear'),
                self.knobs['ext'], mode, bool(f.get('then'))]))
            if fcls in ('torn', 'empty') and idx > 0:
                sim.probe('restart_on_' + fcls + '_file')
            sim.log.add(proc.pid, 'start', [mode, step['target'], fcls])
            kernel.set_current(proc)
            if mode == 'new':
                seams.clear_caches()
            tracer = None
            if self.record_lines or (f.get('at') == 'line'):
                tracer = seams.LineTracer(proc, record=self.record_lines)
            exit_kind, exc_info = 'returned', None
            del captured[:]
            t_start = sim.clock.now()
            try:
                if tracer:
                    tracer.start()
                try:
                    self._run_entry(step, inc,
                                    tgt if mode == 'same_object' else prev)
                finally:
                    if tracer:
                        tracer.stop()
            except SimKill:
                exit_kind = 'SimKill'
            except KeyboardInterrupt:
                exit_kind = 'KeyboardInterrupt'
            except SystemExit as e:
                exit_kind = 'SystemExit'
                exc_info = repr(e)
            except HarnessError:
                raise
            except Exception as e:
                exit_kind = 'raised'
                exc_info = [type(e).__name__, str(e)[:200]]
            self.sim_seconds += sim.clock.now() - t_start
            if inc.batch is None and captured:
                inc.batch = captured[-1]
            # process exit: finalisers of whatever the incarnation left
            # unclosed run now (a dead process's writes are swallowed)
            n_before = proc.n_io
            try:
                # generation 0 holds everything allocated since the last
                # collection (automatic collection is off), which is all an
                # incarnation can have left behind; a full collection of
                # the pandas / matplotlib heap would cost ~100 ms per call
                gc.collect(0)
            except BaseException:   # noqa  (SimKill from a dead handle)
                pass
            if proc.n_io != n_before:
                sim.probe('finaliser_wrote_at_exit')
            inc.killed = proc.dead
            fired = bool(proc.fired)
            if proc.dead and proc.trace:
                k, rel, _ = proc.trace[-1]
                tmp = rel.endswith('.tmp')
                sim.probe('kill_at_' + k + ('_tmp' if tmp else ''))
            kernel.set_current(None)
            sim.log.add(proc.pid, 'exit', [exit_kind, fired])
            if proc.dead and exit_kind == 'returned':
                raise HarnessError('killed incarnation returned normally')
            # whatever is on disk now and parses is a completed save of
            # this incarnation (e.g. killed after the last byte / the rename)
            fcls_after = self.observe('exit')
            self.inc_info.append({
                'idx': idx, 'mode': mode, 'exit': exit_kind,
                'fired': proc.fired, 'n_io': proc.n_io,
                'n_line': proc.n_line, 'n_trial': proc.n_trial,
                'trace': proc.trace, 'file_after': fcls_after,
                'first_lines': (sorted(tracer.first.values())
                                if tracer is not None else []),
                'core_lines': (list(tracer.core)
                               if tracer is not None else []),
            })
            if not fired and exit_kind != 'returned':
                self.violate('run_raised', {
                    'exit': exit_kind, 'exc': exc_info,
                    'file_at_start': fcls, 'ext': self.knobs['ext']})
                break
            if not fired:
                self.final_check(step, inc, last=(idx == len(steps) - 1))
            if self.violations:
                break
            prev = inc
            incs[idx] = inc

    def final_check(self, step, inc, last):
        """After a fault-free incarnation: the file and the in-memory
        results hold exactly `target` trials for every simulation."""
        n = step['target']
        data = self.sb.read_bytes(self.out)
        fcls, doc = parse_results_bytes(data, self.out)
        if inc.batch is None:
            raise HarnessError('no BatchSimulation captured')
        sims = list(inc.batch)
        if not sims:
            return
        # Same-object resume: trials that were complete in memory but never
        # saved (interrupt between the last trial and its save) satisfy the
        # statement through the simulation objects; the file is then only
        # required to be consistent where it has a record.  A new process
        # has nothing but the file.
        same = inc.mode == 'same_object'
        S = {}
        if fcls != 'intact':
            if n > 0 and not same:
                self.violate('no_file_after_complete_run', {'file': fcls})
                return
            if fcls in ('torn', 'empty'):
                self.violate('file_torn_after_complete_run', {'file': fcls})
                return
        else:
            S, _ = records_to_model(doc)
        for s in sims:
            x = seams.identity_of(s.code, s.error_model, s.decoder,
                                  s.error_rate)
            want = max(n, len(inc.adopt.get(x, [])))
            rec = S.get(x)
            if rec is None:
                if not same:
                    self.violate('simulation_missing_in_file',
                                 {'identity': x})
                else:
                    self.sim.probe('same_object_complete_but_unsaved')
            elif rec['n_runs'] != want or rec['lens'] != [want] * 3:
                self.violate('wrong_trial_count_in_file', {
                    'identity': x, 'target': want, 'n_runs': rec['n_runs'],
                    'lens': rec['lens']})
            r = s.results
            mem = [len(r['effective_error']), len(r['success']),
                   len(r['codespace'])]
            if s.n_results != want or mem != [want] * 3:
                self.violate('wrong_trial_count_in_memory', {
                    'identity': x, 'target': want, 'n_runs': s.n_results,
                    'lens': mem})

    def outcome(self):
        return {
            'violations': self.violations,
            'fingerprint': self.sim.log.fingerprint(),
            'incs': self.inc_info,
            'states': sorted(self.states),
            'fault_counts': self.sim.fault_counts,
            'probes': self.sim.probes,
            'saves_seen': self.saves_seen,
            'sim_seconds': self.sim_seconds,
            'n_trials': sum(len(v) for d in self.ledger.by_proc.values()
                            for v in d.values()),
        }


def execute_here(plan, record_lines=False, keep_events=False):
    return Exec(plan, record_lines, keep_events).run()


def execute(plan, **kw):
    """One plan = one simulated process image: run in a forked child."""
    return runner.isolated(execute_here, plan, **kw)


def _tree_bytes(root):
    out = {}
    for d, _, files in os.walk(root):
        for fn in files:
            p = os.path.join(d, fn)
            with sbx._real_open(p, 'rb') as f:
                out[p[len(root):]] = digest(f.read())
    return out


def crossval_real_kill(plan):
    """Crash-model fidelity: the first incarnation of the plan is executed
    (a) in process with the simulated kill and (b) in a forked child that
    really calls os._exit(137) at the same event; the bytes left in the
    sandbox must be identical.  Returns (same?, detail)."""
    import shutil
    import tempfile
    res = []
    for real in (False, True):
        root = tempfile.mkdtemp(prefix='dst-xv-', dir='/dev/shm')
        try:
            if not real:
                Exec(plan, only_first=True, root=root).run()
                status = None
            else:
                pid = os.fork()
                if pid == 0:
                    code = 0
                    try:
                        Exec(plan, only_first=True, real_kill=True,
                             root=root).run()
                    except BaseException:   # noqa
                        code = 3
                    os._exit(code)
                _, st = os.waitpid(pid, 0)
                status = os.waitstatus_to_exitcode(st)
            res.append((_tree_bytes(root), status))
        finally:
            shutil.rmtree(root, ignore_errors=True)
    same = res[0][0] == res[1][0]
    return same, {'in_process': res[0][0], 'forked': res[1][0],
                  'child_exit': res[1][1]}


# ---------------------------------------------------------------------------
# fault enumeration on a recorded trace
# ---------------------------------------------------------------------------
def faults_for(info, tier, rng, is_results):
    """All single faults for one incarnation, from its recorded trace."""
    out = []
    for i, (kind, rel, extra) in enumerate(info['trace']):
        if kind == 'write':
            for t in sbx.TEAR_CLASSES:
                out.append({'kind': 'kill', 'at': 'io', 'event': i,
                            'tear': t})
            if is_results(rel):
                out.append({'kind': 'ki', 'at': 'io', 'event': i})
                out.append({'kind': 'ki', 'at': 'io', 'event': i,
                            'then': {'kind': 'ki', 'at': 'io', 'rel': True,
                                     'event': rng.randrange(0, 6)}})
        else:
            out.append({'kind': 'kill', 'at': 'io', 'event': i})
    for j in range(info['n_trial']):
        out.append({'kind': 'kill', 'at': 'trial', 'event': j})
        out.append({'kind': 'ki', 'at': 'trial', 'event': j})
    # Ctrl-C shortly after a function is entered for the first time in this
    # process: that is where lazily built state (code matrices, decoder
    # set-up, cached tables) is built
    for fidx in info.get('first_lines') or []:
        for off in (1, 9, 45, 220):
            if fidx + off < info['n_line']:
                out.append({'kind': 'ki', 'at': 'line', 'event': fidx + off,
                            'aim': 'first_activation'})
    nl = info['n_line']
    if nl:
        # densely in the batch / simulation layer, sparsely elsewhere in the
        # package (code classes, decoders, noise models)
        stride = 1 if tier == 'thorough' else 7
        off = rng.randrange(stride)
        core = info.get('core_lines') or list(range(nl))
        for j in core[off::stride]:
            out.append({'kind': 'ki', 'at': 'line', 'event': j})
        core_set = set(core)
        others = [j for j in range(nl) if j not in core_set]
        for j in rng.sample(others, min(len(others),
                                        40 if tier == 'quick' else 400)):
            out.append({'kind': 'ki', 'at': 'line', 'event': j,
                        'aim': 'elsewhere_in_package'})
        for _ in range(4 if tier == 'quick' else 30):
            out.append({'kind': 'ki', 'at': 'line',
                        'event': rng.randrange(nl),
                        'then': {'kind': 'ki', 'at': 'io', 'rel': True,
                                 'event': rng.randrange(0, 8)}})
    return out


def with_fault(plan, idx, fault):
    p = copy.deepcopy(plan)
    p['steps'][idx]['fault'] = fault
    return p


def explore_workload(job):
    """One pool job: enumerate crash points of one generated workload.
    Returns a summary with the first violation of each class."""
    wseed, tier, budget = job['wseed'], job['tier'], job['budget']
    rng = stream(wseed, 'enum')
    base = gen_workload(wseed)
    out_name = 'out' + base['knobs']['ext']

    def is_results(rel):
        return out_name in rel

    summ = {'wseed': wseed, 'runs': 0, 'violations': [], 'states': set(),
            'fault_counts': {}, 'probes': {}, 'saves': 0, 'trials': 0,
            'sim_seconds': 0.0, 'complete': True, 'sample': None,
            'fingerprints': [], 'n_faults_total': 0}
    seen_cls = set()

    def run(plan):
        o = execute(plan, record_lines=False)
        summ['runs'] += 1
        summ['states'].update(o['states'])
        for k, v in o['fault_counts'].items():
            summ['fault_counts'][k] = summ['fault_counts'].get(k, 0) + v
        for k, v in o['probes'].items():
            summ['probes'][k] = summ['probes'].get(k, 0) + v
        summ['saves'] += o['saves_seen']
        summ['trials'] += o['n_trials']
        summ['sim_seconds'] += o['sim_seconds']
        for v in o['violations']:
            key = (v['class'], canon(signature(plan, v)))
            if key not in seen_cls:
                seen_cls.add(key)
                summ['violations'].append({'plan': plan, 'violation': v})
        return o

    # level 0: fault-free, with line counting
    o0 = execute(base, record_lines=True)
    summ['runs'] += 1
    summ['fingerprints'].append(o0['fingerprint'])
    summ['states'].update(o0['states'])
    for v in o0['violations']:
        summ['violations'].append({'plan': base, 'violation': v})
    if o0['violations']:
        return _pack(summ)
    n_steps = len(base['steps'])
    # level 1: every fault in the first incarnation(s)
    lvl1 = []
    for idx in range(min(n_steps - 1, 2 if tier == 'quick' else 3)):
        fl = faults_for(o0['incs'][idx], tier, rng, is_results)
        lvl1 += [(idx, f) for f in fl]
    summ['n_faults_total'] = len(lvl1)
    if len(lvl1) > budget:
        # stratified sample: crash points inside writes first
        summ['complete'] = False
        strata = {'kill_io': [], 'ki_io': [], 'trial': [], 'line': [],
                  'first': [], 'other': []}
        for idx, f in lvl1:
            k = ('first' if f.get('aim') == 'first_activation' else
                 'other' if f.get('aim') else
                 'line' if f['at'] == 'line' else 'trial'
                 if f['at'] == 'trial' else
                 'ki_io' if f['kind'] == 'ki' else 'kill_io')
            strata[k].append((idx, f))
        share = {'kill_io': 0.4, 'ki_io': 0.08, 'trial': 0.07, 'line': 0.27,
                 'first': 0.12, 'other': 0.06}
        picked, rest = [], []
        for k in sorted(strata):
            rng.shuffle(strata[k])
            q = int(budget * share[k])
            picked += strata[k][:q]
            rest += strata[k][q:]
        rng.shuffle(rest)
        lvl1 = (picked + rest)[:budget]
    second = []
    for idx, f in lvl1:
        plan = with_fault(base, idx, f)
        o = run(plan)
        if summ['sample'] is None and o['incs'][idx]['fired']:
            summ['sample'] = {
                'knobs': base['knobs'],
                'steps': [{'target': s['target'], 'mode': s['mode'],
                           'fault': s['fault'],
                           'n_sims': None} for s in plan['steps']],
                'exits': [i['exit'] for i in o['incs']],
                'files_after': [i['file_after'] for i in o['incs']],
            }
        if (idx + 1 < n_steps - 1 and o['incs'][idx]['fired']
                and len(o['incs']) > idx + 1 and rng.random() < 0.08):
            second.append((plan, idx + 1, o['incs'][idx + 1]))
    # deeper levels: crash chains - one more fault in the next incarnation,
    # whose trace was recorded *given* the faults before it (2 consecutive
    # crashes in the quick tier, up to 4 in the thorough tier)
    frontier = second
    max_depth = 2 if tier == 'quick' else 4
    for depth in range(2, max_depth + 1):
        b2 = max(10, budget // (4 * (depth - 1)))
        cand = []
        for plan, idx, info in frontier:
            fl = faults_for(dict(info), 'quick', rng, is_results)
            fl = [f for f in fl if f['at'] != 'line']
            rng.shuffle(fl)
            cand += [(plan, idx, f) for f in fl[:12]]
        rng.shuffle(cand)
        frontier = []
        for plan, idx, f in cand[:b2]:
            p2 = with_fault(plan, idx, f)
            o = run(p2)
            key = f'crash_chain_{depth}'
            summ['probes'][key] = summ['probes'].get(key, 0) + 1
            if (idx + 1 < n_steps - 1 and len(o['incs']) > idx + 1
                    and o['incs'][idx]['fired'] and not o['violations']
                    and rng.random() < 0.4):
                frontier.append((p2, idx + 1, o['incs'][idx + 1]))
        if not frontier:
            break
    return _pack(summ)


def _pack(summ):
    summ['states'] = sorted(summ['states'])
    return summ


# ---------------------------------------------------------------------------
# signatures (for known-findings matching and same-class shrinking)
# ---------------------------------------------------------------------------
def signature(plan, v):
    d = v.get('detail') or {}
    sig = {'class': v['class'], 'ext': plan['knobs']['ext']}
    if v['class'] == 'run_raised':
        sig['exc'] = (d.get('exc') or [None])[0] if isinstance(
            d.get('exc'), list) else d.get('exc')
        sig['file_at_start'] = d.get('file_at_start')
    if 'mode' in d:
        sig['mode'] = d['mode']
    return sig


def same_violation(plan, v, want_sig):
    return signature(plan, v) == want_sig


# ---------------------------------------------------------------------------
# shrinking (greedy delta debugging over the plan document)
# ---------------------------------------------------------------------------
def _spec_runs(spec):
    if 'runs' in spec:
        return spec['runs']
    rr = spec['ranges'] if isinstance(spec['ranges'], list) \
        else [spec['ranges']]
    out = []
    for r in rr:
        out += ranges_to_runs(r)
    return out


def shrink(plan, want_sig, max_exec=200):
    best = copy.deepcopy(plan)
    n_exec = [0]

    def fails(p):
        if n_exec[0] >= max_exec:
            return False
        n_exec[0] += 1
        try:
            o = execute(p)
        except HarnessError:
            return False
        return any(same_violation(p, v, want_sig) for v in o['violations'])

    def candidates(p):
        steps = p['steps']
        # drop a step
        for i in range(len(steps)):
            if len(steps) > 1:
                q = copy.deepcopy(p)
                del q['steps'][i]
                for st in q['steps']:
                    if st.get('of') is not None:
                        if st['of'] == i:
                            st.pop('of')
                            st['mode'] = 'new'
                        elif st['of'] > i:
                            st['of'] -= 1
                yield q
        # simpler knobs
        for k, v in (('entry', 'api'), ('subdir', False),
                     ('save_frequency', 1), ('update_frequency', 5),
                     ('bufsize', 8192)):
            if p['knobs'][k] != v:
                q = copy.deepcopy(p)
                q['knobs'][k] = v
                yield q
        for i, s in enumerate(steps):
            for k in ('entry', 'save_frequency'):
                if k in s:
                    q = copy.deepcopy(p)
                    del q['steps'][i][k]
                    yield q
        # explicit runs form, then fewer runs
        for i, s in enumerate(steps):
            runs = _spec_runs(s['spec'])
            if 'runs' not in s['spec']:
                q = copy.deepcopy(p)
                q['steps'][i]['spec'] = {'runs': copy.deepcopy(runs)}
                yield q
            elif len(runs) > 1:
                for j in range(len(runs)):
                    q = copy.deepcopy(p)
                    victim = canon(runs[j])
                    for st in q['steps']:
                        if 'runs' in st['spec']:
                            st['spec']['runs'] = [
                                r for r in st['spec']['runs']
                                if canon(r) != victim] or st['spec']['runs']
                    yield q
        # lower targets (keep them non-decreasing)
        for i, s in enumerate(steps):
            if s['target'] > 1:
                q = copy.deepcopy(p)
                q['steps'][i]['target'] -= 1
                for j in range(i):
                    q['steps'][j]['target'] = min(q['steps'][j]['target'],
                                                  q['steps'][i]['target'])
                yield q
        # simpler faults
        for i, s in enumerate(steps):
            f = s.get('fault')
            if not f:
                continue
            if f.get('then'):
                q = copy.deepcopy(p)
                del q['steps'][i]['fault']['then']
                yield q
            if f.get('tear') not in (None, '0'):
                q = copy.deepcopy(p)
                q['steps'][i]['fault']['tear'] = '0'
                yield q
            if f.get('event', 0) > 0:
                for e in (0, f['event'] // 2, f['event'] - 1):
                    if e != f['event']:
                        q = copy.deepcopy(p)
                        q['steps'][i]['fault']['event'] = e
                        yield q
            if s.get('mode') == 'same_object':
                q = copy.deepcopy(p)
                q['steps'][i]['mode'] = 'new'
                yield q

    improved = True
    while improved and n_exec[0] < max_exec:
        improved = False
        for q in candidates(best):
            if canon(q) == canon(best):
                continue
            if fails(q):
                best = q
                improved = True
                break
    return best, n_exec[0]


# ---------------------------------------------------------------------------
# check interface (see dst/main.py)
# ---------------------------------------------------------------------------
WALL_BUDGET = {'quick': 55, 'thorough': 1500}
JOB_TIMEOUT = 2400


def make_jobs(tier, seed):
    n = 80 if tier == 'quick' else 2400
    budget = 110 if tier == 'quick' else 450
    jobs = [{'wseed': H(seed, PROP, 'w', i), 'tier': tier, 'budget': budget}
            for i in range(n)]
    n_xv = 48 if tier == 'quick' else 960
    xv = [{'kind': 'xv', 'seeds': [H(seed, PROP, 'xv', b * 6 + i)
                                   for i in range(6)]}
          for b in range(n_xv // 6)]
    # interleave so that the cross-validation is not starved by the budget
    step = max(1, len(jobs) // max(1, len(xv)))
    out = []
    for i, j in enumerate(jobs):
        if i % step == 0 and xv:
            out.append(xv.pop())
        out.append(j)
    return out + xv


def run_xv(job):
    """Crash-model cross-validation block (see crossval_real_kill)."""
    summ = {'wseed': None, 'runs': 0, 'violations': [], 'states': [],
            'fault_counts': {}, 'probes': {}, 'saves': 0, 'trials': 0,
            'sim_seconds': 0.0, 'complete': False, 'sample': None,
            'fingerprints': [], 'n_faults_total': 0,
            'xv': {'plans': 0, 'identical': 0, 'child_really_killed': 0,
                   'mismatch': []}}
    for s_ in job['seeds']:
        rng = stream(s_, 'xv')
        base = gen_workload(s_)
        f = rng.choice([
            {'kind': 'kill', 'at': 'io', 'event': rng.randrange(0, 60),
             'tear': rng.choice(sbx.TEAR_CLASSES)},
            {'kind': 'kill', 'at': 'io', 'event': rng.randrange(0, 12),
             'tear': rng.choice(sbx.TEAR_CLASSES)},
            {'kind': 'kill', 'at': 'trial', 'event': rng.randrange(0, 4)},
            {'kind': 'kill', 'at': 'line', 'event': rng.randrange(50, 700)},
        ])
        plan = with_fault(base, 0, f)
        same, d = crossval_real_kill(plan)
        x = summ['xv']
        x['plans'] += 1
        x['identical'] += 1 if same else 0
        x['child_really_killed'] += 1 if d['child_exit'] == 137 else 0
        if not same and len(x['mismatch']) < 3:
            x['mismatch'].append({'fault': f, 'detail': d})
    return summ


def run_job(job):
    if job.get('kind') == 'xv':
        return run_xv(job)
    return explore_workload(job)


def determinism_plans(seed, n):
    """Plans with a fault in the first incarnation, for the fingerprint
    self-test (same process twice, fresh interpreter / other hash seed)."""
    plans = []
    i = 0
    while len(plans) < n:
        rng = stream(seed, 'det', i)
        base = gen_workload(H(seed, PROP, 'det', i))
        i += 1
        f = rng.choice([
            {'kind': 'kill', 'at': 'io', 'event': rng.randrange(1, 30),
             'tear': rng.choice(sbx.TEAR_CLASSES)},
            {'kind': 'ki', 'at': 'line', 'event': rng.randrange(50, 400)},
            {'kind': 'kill', 'at': 'trial', 'event': rng.randrange(0, 4)},
        ])
        plans.append(with_fault(base, 0, f))
    return plans


def new_aggregate():
    return {'runs': 0, 'workloads': 0, 'complete': 0, 'violations': [],
            'states': set(), 'fault_counts': {}, 'probes': {}, 'saves': 0,
            'trials': 0, 'sim_seconds': 0.0, 'samples': [],
            'faults_enumerable': 0,
            'xv': {'plans': 0, 'identical': 0, 'child_really_killed': 0,
                   'mismatch': []}}


def aggregate(agg, r):
    if 'xv' in r:
        for k in ('plans', 'identical', 'child_really_killed'):
            agg['xv'][k] += r['xv'][k]
        agg['xv']['mismatch'] += r['xv']['mismatch']
        return
    agg['runs'] += r['runs']
    agg['workloads'] += 1
    agg['complete'] += 1 if r['complete'] else 0
    agg['violations'] += r['violations']
    agg['states'].update(r['states'])
    for k, v in r['fault_counts'].items():
        agg['fault_counts'][k] = agg['fault_counts'].get(k, 0) + v
    for k, v in r['probes'].items():
        agg['probes'][k] = agg['probes'].get(k, 0) + v
    agg['saves'] += r['saves']
    agg['trials'] += r['trials']
    agg['sim_seconds'] += r['sim_seconds']
    agg['faults_enumerable'] += r['n_faults_total']
    if r['sample'] and len(agg['samples']) < 6:
        agg['samples'].append(r['sample'])


def evidence(tier, agg, wall):
    cov = {
        'evaluations': agg['runs'],
        'distinct_nontrivial': len(agg['states']),
        'rule': (
            'one evaluation = one plan (chain of 2-5 incarnations of the '
            'real entry point on one results file, at most one fault per '
            'incarnation) executed under the simulator and judged by the '
            'ledger / last-completed-save oracle.  Plans are derived from '
            'seeded workloads by enumerating every file-system event x tear '
            'class, every trial boundary and every 7th (quick) / every '
            '(thorough) traced line of the first incarnations, plus sampled '
            'two-crash chains.  distinct_nontrivial = number of distinct '
            'abstract states at incarnation start: (file absent / empty / '
            'torn / intact, sorted durable trial counts per identity, fault '
            'kind, fault site kind, tear class, chained?, file format, '
            'process-restart vs same-object resume)'),
        'samples': agg['samples'] or [{'note': 'no fault fired'}],
        'workloads': agg['workloads'],
        'workloads_with_all_first_level_faults_executed': agg['complete'],
        'first_level_faults_enumerable': agg['faults_enumerable'],
        'simulated_runs': agg['runs'],
        'simulated_runs_per_hour': int(agg['runs'] / max(wall, 1e-9) * 3600),
        'simulated_seconds_covered': round(agg['sim_seconds'], 1),
        'trials_executed': agg['trials'],
        'completed_saves_judged': agg['saves'],
        'faults_fired': dict(sorted(agg['fault_counts'].items())),
        'reach_probes': dict(sorted(agg['probes'].items())),
        'crash_model_cross_validation': {
            'what': 'first incarnation executed in process (simulated kill) '
                    'and in a forked child that really calls os._exit(137) '
                    'at the same event; sandbox bytes compared',
            'plans': agg['xv']['plans'],
            'identical': agg['xv']['identical'],
            'child_really_killed': agg['xv']['child_really_killed'],
            'mismatches': agg['xv']['mismatch'][:3]},
        'real_vs_stub': {
            'real': ['panqec.simulation.read_input_dict / run_file',
                     'panqec.cli run (click)', 'BatchSimulation',
                     'DirectSimulation', 'run_once', 'codes',
                     'PauliErrorModel', 'Matching / UnionFind / BP-OSD '
                     'decoders (C++ cores as black boxes)',
                     'utils.save_json / load_json', 'stdlib json / gzip / io '
                     'buffering'],
            'simulated': ['process boundary and kill', 'raw write() path '
                          '(instrumented io.FileIO on tmpfs)', 'wall clock',
                          'OS entropy', 'tqdm (progress= argument)',
                          'KeyboardInterrupt delivery (sys.settrace / '
                          'inside write)'],
        },
        'exhaustive': False,
    }
    assumptions = [
        'kill = SIGKILL semantics: bytes handed to write(2) survive, '
        'user-space buffers are lost, rename is atomic; power loss / fsync '
        'reordering is not modelled',
        'targets are non-decreasing along a chain (as the property states)',
        'a stopped incarnation is judged only on what it left on disk',
    ]
    return 'fault_enumeration', cov, assumptions


def harness_problems(agg):
    """A disagreement between the simulated and the real kill is a defect of
    the simulator, never a verdict on panqec."""
    x = agg['xv']
    if x['plans'] != x['identical']:
        return ['crash-model cross-validation mismatch: ' +
                canon(x['mismatch'])[:1500]]
    return []
