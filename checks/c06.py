"""C06 - decoding is a pure function of the syndrome.

The simulated system is a pool of long-lived objects - 1-3 decoders (possibly
of different classes / error rates) over *shared* code and noise objects, as
a batch builds them - driven by simulated trial loops whose decode calls the
seeded scheduler interleaves, with cache evictions and gc at scheduler-chosen
points.  Per call: the outcome must equal the memoised outcome of a freshly
built decoder (on freshly built code / noise) for the same syndrome; the
caller's syndrome buffer, the cached probability tables, the matching weights
and the code matrices must be unchanged.  On the 2x2 toric code all ordered
pairs of valid syndromes are run for each deterministic decoder.
"""
import copy
import gc
import hashlib
import sys

import numpy as np

from dst import kernel, seams, refmodel, runner
from dst.kernel import Sim, HarnessError, stream, canon, digest, H

PROP = 'C06'

CONFIGS = [
    # (code name, params, deform, decoder names)
    ('Toric2DCode', [2, 2], None, ['MatchingDecoder', 'BPOSD', 'BPOSD_cu',
                                   'UnionFindDecoder']),
    ('Toric2DCode', [3, 3], None, ['MatchingDecoder', 'BPOSD', 'BPOSD_cu',
                                   'UnionFindDecoder']),
    ('Toric2DCode', [3, 2], None, ['MatchingDecoder', 'BPOSD']),
    ('Toric2DCode', [4, 4], None, ['MatchingDecoder', 'BPOSD']),
    ('Planar2DCode', [2, 2], None, ['MatchingDecoder', 'BPOSD']),
    ('Planar2DCode', [3, 3], None, ['MatchingDecoder', 'BPOSD', 'BPOSD_cu']),
    ('RotatedPlanar2DCode', [3, 3], None, ['MatchingDecoder', 'BPOSD']),
    ('Toric2DCode', [3, 3], 'XZZX', ['BPOSD']),          # non-CSS path
    ('Planar2DCode', [3, 2], 'XZZX', ['BPOSD']),
    ('Toric3DCode', [2, 2, 2], None, ['BPOSD', 'BPOSD_cu']),
    ('XCubeCode', [2, 2, 2], None, ['XCubeMatchingDecoder', 'BPOSD']),
    ('Color666ToricCode', [2, 2], None, ['BPOSD']),
    ('Toric2DCode', [3, 3], None, ['MBP']),
    # randomised sweep-match decoders: judged by validity, not by equality
    ('Toric3DCode', [2, 2, 2], None, ['SweepMatch', 'BPOSD']),
    ('Toric3DCode', [3, 3, 3], None, ['SweepMatch']),
    ('Toric3DCode', [2, 3, 2], None, ['SweepMatch', 'SweepMatch']),
    ('RotatedPlanar3DCode', [2, 2, 2], None, ['RotatedSweepMatch']),
    ('RotatedPlanar3DCode', [3, 3, 2], None, ['RotatedSweepMatch', 'BPOSD']),
]
RANDOMISED = ('SweepMatch', 'RotatedSweepMatch')
NOISES = [
    {'r_x': 1/3, 'r_y': 1/3, 'r_z': 1/3},
    {'r_x': 0.0, 'r_y': 0.0, 'r_z': 1.0},
    {'r_x': 0.1, 'r_y': 0.2, 'r_z': 0.7},
    {'r_x': 0.8, 'r_y': 0.1, 'r_z': 0.1},
    {'r_x': 0.25, 'r_y': 0.25, 'r_z': 0.5, 'deformation_name': 'XZZX'},
]
RATES = [0.02, 0.08, 0.2]

DEC = {
    'MatchingDecoder': ('MatchingDecoder', {}),
    'UnionFindDecoder': ('UnionFindDecoder', {}),
    'XCubeMatchingDecoder': ('XCubeMatchingDecoder', {}),
    'BPOSD': ('BeliefPropagationOSDDecoder',
              {'max_bp_iter': 8, 'osd_order': 0}),
    'BPOSD_cu': ('BeliefPropagationOSDDecoder',
                 {'max_bp_iter': 8, 'osd_order': 0, 'channel_update': True}),
    'MBP': ('MemoryBeliefPropagationDecoder', {'max_bp_iter': 3}),
    'SweepMatch': ('SweepMatchDecoder', {}),
    'RotatedSweepMatch': ('RotatedSweepMatchDecoder', {'max_rounds': 4}),
}


def make_code(cfg):
    from panqec.config import CODES as C
    code = C[cfg['code']](*cfg['params'])
    if cfg.get('deform'):
        code.deform(cfg['deform'])
    return code


def make_noise(nz):
    from panqec.error_models import PauliErrorModel
    return PauliErrorModel(**nz)


def make_decoder(code, noise, d):
    from panqec.config import DECODERS as D
    name, params = DEC[d['kind']]
    return D[name](code, noise, d['rate'], **params)


class _Hang(Exception):
    pass


class DecodeTracer:
    """Counts traced line events inside panqec/decoders/* during one decode
    call; raises KeyboardInterrupt at the chosen one (Ctrl-C inside decode)
    and gives up with _Hang beyond a cap (a decode that never returns)."""

    PREFIX = (seams.REPO + 'decoders' + '/',
              seams.REPO + 'error_models' + '/')

    def __init__(self, ki_at=None, cap=3_000_000, count_only=False):
        self.ki_at = ki_at
        self.cap = cap
        self.n = 0
        self.fired = None
        self.count_only = count_only
        self.first = {}

    def _g(self, frame, event, arg):
        if frame.f_code.co_filename.startswith(self.PREFIX):
            return self._l
        return None

    def _l(self, frame, event, arg):
        if event == 'line':
            self.n += 1
            if self.count_only:
                self.first.setdefault(frame.f_code, self.n)
            if self.ki_at is not None and self.n == self.ki_at:
                self.fired = [frame.f_code.co_filename[len(seams.REPO):],
                              frame.f_lineno]
                raise KeyboardInterrupt()
            if self.n > self.cap:
                raise _Hang()
        return self._l


def arr_digest(a):
    if a is None:
        return None
    if hasattr(a, 'tocsr'):
        a = a.tocsr()
        a.sort_indices()
        h = hashlib.sha256()
        for part in (a.data, a.indices, a.indptr):
            h.update(np.ascontiguousarray(part).tobytes())
        h.update(repr(a.shape).encode())
        return h.hexdigest()[:16]
    a = np.ascontiguousarray(np.asarray(a))
    return hashlib.sha256(a.tobytes() + repr((a.shape, str(a.dtype))
                                             ).encode()).hexdigest()[:16]


def env_digests(code, noise, rates):
    """Everything a decode call must leave alone."""
    out = {}
    for r in rates:
        pd = noise.probability_distribution(code, r)
        out[f'pd@{r}'] = [arr_digest(a) for a in pd]
        wx, wz = noise.get_weights(code, r)
        out[f'w@{r}'] = [arr_digest(wx), arr_digest(wz)]
    out['H'] = arr_digest(code.stabilizer_matrix)
    if code.is_css:
        out['Hx'] = arr_digest(code.Hx)
        out['Hz'] = arr_digest(code.Hz)
    out['Lx'] = arr_digest(code.logicals_x)
    out['Lz'] = arr_digest(code.logicals_z)
    return out


def outcome_of(fn):
    try:
        r = fn()
    except Exception as e:
        return ('raised', type(e).__name__)
    a = np.asarray(r)
    return ('ok', a.shape, [int(v) for v in a.ravel()])


def syndrome_of(code, pauli, dtype='native'):
    """Syndrome of a Pauli string: as the array type measure_syndrome
    returns (what run_once hands to decoders), or as the int64 array a user
    gets from H @ e % 2, from JSON, or from .astype(int)."""
    from panqec.bpauli import pauli_to_bsf
    s = code.measure_syndrome(pauli_to_bsf(pauli))
    if dtype == 'int64':
        s = np.array(s, dtype=np.int64)
    return s


def valid_randomised(code, rc, syndrome, got):
    """Validity predicate for the randomised sweep-match decoders: binary,
    length 2n, and the vertex (Z-type) sector of the syndrome is reproduced
    by the correction (that part is decoded by complete matching)."""
    if got[0] != 'ok':
        return 'raised ' + got[1]
    shape, vals = got[1], got[2]
    n = rc.n
    if tuple(shape) != (2 * n,) or not set(vals) <= {0, 1}:
        return 'not a binary vector of length 2n'
    c = refmodel.op_from_bsf(vals, n)
    syn = rc.syndrome(c)
    for r, loc in enumerate(code.stabilizer_coordinates):
        if code.stabilizer_type(loc) == 'vertex' and \
                syn[r] != int(syndrome[r]) % 2:
            return 'vertex syndrome not reproduced'
    return None


# ---------------------------------------------------------------------------
# plans
# ---------------------------------------------------------------------------
def gen_error(rng, n, prev):
    kind = rng.choice(['zero', 'zero', 'x_only', 'z_only', 'rand_low',
                       'rand_mid', 'rand_high', 'repeat', 'single'])
    if kind == 'repeat' and prev is not None:
        return prev
    if kind == 'zero':
        return 'I' * n
    if kind == 'single':
        i = rng.randrange(n)
        return 'I' * i + rng.choice('XYZ') + 'I' * (n - i - 1)
    rate = {'x_only': 0.15, 'z_only': 0.15, 'rand_low': 0.05,
            'rand_mid': 0.15, 'rand_high': 0.45, 'repeat': 0.1}[kind]
    alphabet = {'x_only': 'X', 'z_only': 'Z'}.get(kind, 'XYZ')
    return ''.join(rng.choice(alphabet) if rng.random() < rate else 'I'
                   for _ in range(n))


def gen_history(seed):
    from panqec.config import CODES as C
    rng = stream(seed, 'c06')
    cname, params, deform, decs = rng.choice(CONFIGS)
    noise = dict(rng.choice(NOISES))
    if noise.get('deformation_name') and \
            noise['deformation_name'] not in C[cname].deformation_names:
        del noise['deformation_name']
    n_dec = rng.choice([1, 1, 2, 3])
    decoders = [{'kind': rng.choice(decs), 'rate': rng.choice(RATES)}
                for _ in range(n_dec)]
    # a second noise model in the same batch that differs from the first
    # only in the deformation axis (or in the fifth decimal of the
    # direction): same label, different channel
    noise2 = None
    if n_dec > 1 and rng.random() < 0.5:
        noise2 = dict(noise)
        if noise.get('deformation_name') == 'XZZX' and rng.random() < 0.7:
            noise2['deformation_kwargs'] = {
                'deformation_axis': rng.choice(['x', 'y'])}
        else:
            keys = ['r_x', 'r_y', 'r_z']
            big = max(keys, key=lambda k: noise2[k])
            oth = rng.choice([k for k in keys if k != big])
            noise2[big] -= 3e-5
            noise2[oth] += 3e-5
        for d in decoders[1:]:
            if rng.random() < 0.6:
                d['noise2'] = True
                d['rate'] = decoders[0]['rate']
    cfg = {'code': cname, 'params': params, 'deform': deform}
    n = make_code(cfg).n
    ops = []
    prev = None
    for _ in range(rng.randint(4, 60 if n <= 40 else 25)):
        r = rng.random()
        if r < 0.88:
            e = gen_error(rng, n, prev)
            prev = e
            op = {'op': 'decode', 'dec': rng.randrange(n_dec), 'error': e}
            if rng.random() < 0.08:
                # Ctrl-C at the j-th traced line inside this decode call
                op['ki_line'] = rng.choice([rng.randint(1, 60),
                                            rng.randint(1, 600),
                                            rng.randint(1, 6000)])
            ops.append(op)
        elif r < 0.95:
            ops.append({'op': 'cache_clear'})
        else:
            ops.append({'op': 'gc'})
    # the first call of a decoder is where lazy initialisation (decoder
    # set-up, first computation of cached tables) happens
    seen_dec = set()
    for op in ops:
        if op['op'] == 'decode' and op['dec'] not in seen_dec:
            seen_dec.add(op['dec'])
            if rng.random() < 0.3:
                op['ki_line'] = rng.randint(1, 120)
    return {'property': PROP, 'kind': 'history', 'seed': seed, 'cfg': cfg,
            'noise': noise, 'noise2': noise2, 'decoders': decoders,
            'ops': ops,
            'syn_dtype': rng.choice(['native', 'native', 'int64'])}


def gen_pairs(seed, cfg, noise, dec, syndromes=None):
    return {'property': PROP, 'kind': 'pairs', 'seed': seed, 'cfg': cfg,
            'noise': noise, 'decoders': [dec], 'limit': syndromes}


# ---------------------------------------------------------------------------
# execution
# ---------------------------------------------------------------------------
_fresh_memo = {}


def fresh_outcome(cfg, noise_spec, dec_spec, error, dtype='native'):
    """What a newly constructed decoder (on newly constructed code and noise
    objects) returns for the syndrome of `error`.  Memoised per process."""
    key = (canon(cfg), canon(noise_spec), canon(dec_spec), error, dtype)
    if key not in _fresh_memo:
        code = make_code(cfg)
        noise = make_noise(noise_spec)
        s = syndrome_of(code, error, dtype)
        try:
            dec = make_decoder(code, noise, dec_spec)
        except Exception as e:
            _fresh_memo[key] = ('construct_raised', type(e).__name__)
        else:
            _fresh_memo[key] = outcome_of(lambda: dec.decode(s))
        if len(_fresh_memo) > 200000:
            _fresh_memo.clear()
    return _fresh_memo[key]


def execute_here(plan, keep_events=False):
    sim = Sim(plan['seed'], keep_events=keep_events)
    violations = []
    states = set()

    def violate(cls, detail):
        violations.append({'class': cls, 'detail': detail})

    proc = sim.new_proc('pool')
    kernel.set_current(proc)
    seams.install_entropy(plan['seed'])
    n_calls = 0
    try:
        seams.clear_caches()
        cfg, nz = plan['cfg'], plan['noise']
        code = make_code(cfg)
        noise = make_noise(nz)
        nz2 = plan.get('noise2')
        noise_b = make_noise(nz2) if nz2 else None
        if noise_b is not None:
            sim.probe('two_near_identical_noise_models_in_pool')
        decs = []
        for d in plan['decoders']:
            try:
                decs.append(make_decoder(
                    code, noise_b if d.get('noise2') and noise_b is not None
                    else noise, d))
            except Exception as e:
                decs.append(None)
                sim.probe('decoder_construct_raised_' + type(e).__name__)
        rates = sorted({d['rate'] for d in plan['decoders']})
        # reference digests come from a separate pair of fresh objects, so
        # that the shared objects' caches are first filled by the code under
        # test itself (possibly inside an interrupted call)
        env0 = env_digests(make_code(cfg), make_noise(nz), rates)
        env0b = (env_digests(make_code(cfg), make_noise(nz2), rates)
                 if nz2 else None)
        n = code.n
        if plan['kind'] == 'pairs':
            ops = pair_ops(code, plan)
        else:
            ops = plan['ops']
        last = {}
        returned = {}     # decoder index -> (array object, digest)
        watch = set()     # decoders whose previous call was interrupted
        called = set()    # decoders that had their first call
        dtype = plan.get('syn_dtype', 'native')
        rc = None
        for oi, op in enumerate(ops):
            kind = op['op']
            if kind == 'cache_clear':
                seams.clear_caches()
                sim.count_fault('cache_eviction')
                continue
            if kind == 'gc':
                gc.collect()
                sim.count_fault('gc')
                continue
            di = op['dec']
            dec = decs[di]
            if dec is None:
                continue
            dspec = plan['decoders'][di]
            s = syndrome_of(code, op['error'], dtype)
            s_before = arr_digest(s)
            s_copy = np.array(s, copy=True)
            raw = {}

            def call():
                raw['r'] = dec.decode(s)
                return raw['r']
            tracer = None
            if op.get('ki_first_activation') is not None \
                    and di not in called:
                # aim a little after the first entry of one of the functions
                # this decoder's FIRST call enters (lazy initialisation
                # lives there); the line numbering comes from a dry run on a
                # separate fresh set of objects
                rank, off = op['ki_first_activation']
                d_code = make_code(cfg)
                d_noise = make_noise(nz2 if dspec.get('noise2') and nz2
                                     else nz)
                try:
                    d_dec = make_decoder(d_code, d_noise, dspec)
                    cnt = DecodeTracer(count_only=True)
                    d_s = syndrome_of(d_code, op['error'], dtype)
                    sys.settrace(cnt._g)
                    try:
                        try:
                            d_dec.decode(d_s)
                        except Exception:
                            pass
                    finally:
                        sys.settrace(None)
                    firsts = sorted(cnt.first.values())
                    if firsts:
                        at = min(max(1, cnt.n), firsts[rank % len(firsts)]
                                 + off)
                        tracer = DecodeTracer(ki_at=at)
                        sim.probe('interrupt_aimed_at_first_activation')
                except Exception:
                    pass
            called.add(di)
            if tracer is not None:
                pass
            elif op.get('ki_line') is not None:
                tracer = DecodeTracer(ki_at=op['ki_line'])
            elif di in watch:
                # first call after an interrupted one: watched for
                # non-termination
                tracer = DecodeTracer()
                watch.discard(di)
            if tracer is not None:
                sys.settrace(tracer._g)
                try:
                    try:
                        got = outcome_of(call)
                    finally:
                        sys.settrace(None)
                except KeyboardInterrupt:
                    # the caller catches the interrupt and carries on with
                    # the same decoder object
                    sim.count_fault('ki:inside_decode')
                    sim.log.add(proc.pid, 'decode-ki', [di, tracer.fired])
                    watch.add(di)
                    returned.pop(di, None)
                    continue
                except _Hang:
                    violate('decode_does_not_terminate', {
                        'decoder': dspec['kind'], 'call': oi,
                        'after_interrupted_call': True,
                        'error': op['error']})
                    break
            else:
                got = outcome_of(call)
            n_calls += 1
            # an array handed out by an earlier call must not change under
            # the caller's feet when the decoder is used again
            if di in returned and isinstance(returned[di][0], np.ndarray):
                if arr_digest(returned[di][0]) != returned[di][1]:
                    violate('returned_correction_overwritten_by_later_call',
                            {'decoder': dspec['kind'], 'call': oi})
                    break
            if isinstance(raw.get('r'), np.ndarray):
                returned[di] = (raw['r'], arr_digest(raw['r']))
            sim.log.add(proc.pid, 'decode', [di, digest(op['error']),
                                             digest(got)])
            if arr_digest(s) != s_before:
                violate('syndrome_modified', {
                    'decoder': dspec['kind'], 'call': oi,
                    'changed_entries': int(np.sum(np.asarray(s) != s_copy))})
                break
            want = fresh_outcome(cfg, nz2 if dspec.get('noise2') and nz2
                                 else nz, dspec, op['error'], dtype)
            if want[0] == 'construct_raised':
                continue
            if dspec['kind'] in RANDOMISED:
                if rc is None:
                    rc = refmodel.RefCode(code)
                vg = valid_randomised(code, rc, s_copy, got)
                vw = valid_randomised(code, rc, s_copy, want)
                if vg != vw:
                    violate('history_dependent_validity', {
                        'decoder': dspec['kind'], 'call': oi,
                        'reused_decoder': vg, 'fresh_decoder': vw,
                        'error': op['error'],
                        'previous_error_on_this_decoder': last.get(di)})
                    break
                sim.probe('randomised_decoder_call')
            elif got[0] == 'raised' and want[0] == 'raised':
                sim.probe('both_raise_' + got[1])     # C05's business
            elif got != want:
                prev_e = last.get(di)
                violate('history_dependent_outcome', {
                    'decoder': dspec['kind'], 'call': oi,
                    'zero_syndrome': not bool(np.any(s_copy)),
                    'previous_error_on_this_decoder': prev_e,
                    'error': op['error'],
                    'got': summarize(got), 'fresh': summarize(want)})
                break
            env1 = env_digests(code, noise, rates)
            if noise_b is not None and env0b is not None:
                if env_digests(code, noise_b, rates) != env0b:
                    violate('shared_tables_modified', {
                        'decoder': dspec['kind'], 'call': oi,
                        'changed': ['tables of the second noise model']})
                    break
            if env1 != env0:
                changed = sorted(k for k in env0 if env0[k] != env1.get(k))
                violate('shared_tables_modified', {
                    'decoder': dspec['kind'], 'call': oi,
                    'changed': changed})
                break
            if not np.any(s_copy):
                sim.probe('zero_syndrome_after_' + (
                    'nonzero' if last.get(di) and set(last[di]) != {'I'}
                    else 'start_or_zero'))
            elif code.is_css:
                sx = code.extract_x_syndrome(s_copy)
                sz = code.extract_z_syndrome(s_copy)
                if not np.any(sx) or not np.any(sz):
                    sim.probe('sector_zero_syndrome')
            last[di] = op['error']
        states.add(digest([cfg, [d['kind'] for d in plan['decoders']],
                           plan['kind'], min(n_calls, 64) // 8]))
    finally:
        seams.uninstall_entropy()
        kernel.set_current(None)
    return {
        'violations': violations,
        'fingerprint': sim.log.fingerprint(),
        'states': sorted(states),
        'fault_counts': sim.fault_counts,
        'probes': sim.probes,
        'n_calls': n_calls,
    }


def execute(plan, **kw):
    """One plan = one simulated process image: run in a forked child."""
    return runner.isolated(execute_here, plan, **kw)


def summarize(o):
    if o[0] != 'ok':
        return list(o)
    return ['ok', [i for i, v in enumerate(o[2]) if v]]


def valid_syndrome_errors(code, limit=None):
    """One error per distinct syndrome: products of single-qubit X / Z
    errors explored breadth first (exhaustive for tiny codes)."""
    n = code.n
    rc = refmodel.RefCode(code)
    seen = {}
    frontier = ['I' * n]
    seen[tuple(rc.syndrome(refmodel.op_from_string('I' * n)))] = 'I' * n
    gens = []
    for i in range(n):
        for p in 'XZ':
            gens.append((i, p))
    while frontier:
        nxt = []
        for e in frontier:
            for i, p in gens:
                cur = e[i]
                new = {('I', 'X'): 'X', ('I', 'Z'): 'Z', ('X', 'X'): 'I',
                       ('Z', 'Z'): 'I', ('X', 'Z'): 'Y', ('Z', 'X'): 'Y',
                       ('Y', 'X'): 'Z', ('Y', 'Z'): 'X'}[(cur, p)]
                e2 = e[:i] + new + e[i + 1:]
                k = tuple(rc.syndrome(refmodel.op_from_string(e2)))
                if k not in seen:
                    seen[k] = e2
                    nxt.append(e2)
                    if limit and len(seen) >= limit:
                        return sorted(seen.values())
        frontier = nxt
    return sorted(seen.values())


def pair_ops(code, plan):
    errs = valid_syndrome_errors(code, plan.get('limit'))
    ops = []
    for a in errs:
        for b in errs:
            ops.append({'op': 'decode', 'dec': 0, 'error': a})
            ops.append({'op': 'decode', 'dec': 0, 'error': b})
    return ops


# ---------------------------------------------------------------------------
# check interface
# ---------------------------------------------------------------------------
WALL_BUDGET = {'quick': 110, 'thorough': 1500}
JOB_TIMEOUT = 1200


def pair_plans(tier, seed):
    out = []
    cfg = {'code': 'Toric2DCode', 'params': [2, 2], 'deform': None}
    for nz in (NOISES[:3] if tier == 'quick' else NOISES):
        for kind in ('MatchingDecoder', 'BPOSD', 'BPOSD_cu'):
            for rate in (RATES[1:2] if tier == 'quick' else RATES):
                out.append(gen_pairs(H(seed, 'pairs', len(out)), cfg, nz,
                                     {'kind': kind, 'rate': rate}))
    out.append(gen_pairs(H(seed, 'pairs', len(out)), cfg, NOISES[0],
                         {'kind': 'UnionFindDecoder', 'rate': 0.08},
                         16 if tier == 'quick' else None))
    cfg2 = {'code': 'Planar2DCode', 'params': [2, 2], 'deform': None}
    for kind in ('MatchingDecoder', 'BPOSD', 'BPOSD_cu'):
        out.append(gen_pairs(H(seed, 'pairs', len(out)), cfg2, NOISES[2],
                             {'kind': kind, 'rate': 0.08}))
    cfg3 = {'code': 'Planar2DCode', 'params': [2, 2], 'deform': 'XZZX'}
    out.append(gen_pairs(H(seed, 'pairs', len(out)), cfg3, NOISES[0],
                         {'kind': 'BPOSD', 'rate': 0.08}))
    return out


def first_activation_plans(tier, seed):
    """Fault enumeration over first activations: for a few decoder /
    code / noise configurations, Ctrl-C 1 .. 300 lines after every function
    entered for the first time during the decoder's first call; then six
    more calls compared with fresh decoders."""
    rng = stream(seed, 'fa')
    combos = [
        ({'code': 'Toric2DCode', 'params': [3, 3], 'deform': None},
         NOISES[4], 'BPOSD'),
        ({'code': 'Toric2DCode', 'params': [3, 3], 'deform': None},
         NOISES[2], 'BPOSD_cu'),
        ({'code': 'Toric2DCode', 'params': [3, 3], 'deform': None},
         NOISES[0], 'UnionFindDecoder'),
        ({'code': 'XCubeCode', 'params': [2, 2, 2], 'deform': None},
         NOISES[0], 'XCubeMatchingDecoder'),
        ({'code': 'Toric3DCode', 'params': [2, 2, 2], 'deform': None},
         NOISES[1], 'SweepMatch'),
        ({'code': 'Planar2DCode', 'params': [3, 2], 'deform': 'XZZX'},
         NOISES[0], 'BPOSD'),
    ]
    if tier == 'quick':
        ranks, offs = range(14), (1, 12, 70, 300)
    else:
        ranks, offs = range(30), (1, 5, 12, 30, 70, 150, 300, 900)
    out = []
    for cfg, nz, kind in combos:
        n = make_code(cfg).n
        for rank in ranks:
            for off in offs:
                ops = []
                prev = None
                for j in range(7):
                    e = gen_error(rng, n, prev)
                    prev = e
                    op = {'op': 'decode', 'dec': 0, 'error': e}
                    if j == 0:
                        while set(e) == {'I'}:
                            e = gen_error(rng, n, None)
                        op['error'] = e
                        op['ki_first_activation'] = [rank, off]
                    ops.append(op)
                out.append({'property': PROP, 'kind': 'history',
                            'seed': H(seed, 'fa', len(out)), 'cfg': cfg,
                            'noise': dict(nz), 'noise2': None,
                            'decoders': [{'kind': kind, 'rate': 0.08}],
                            'ops': ops, 'syn_dtype': 'native'})
    return out


def make_jobs(tier, seed):
    jobs = [{'plans': [p]} for p in pair_plans(tier, seed)]
    fa = first_activation_plans(tier, seed)
    jobs += [{'plans': fa[i:i + 12]} for i in range(0, len(fa), 12)]
    n = 1600 if tier == 'quick' else 40000
    per = 10
    for b in range(n // per):
        jobs.append({'plans': [gen_history(H(seed, PROP, 'h', b * per + i))
                               for i in range(per)]})
    return jobs


def run_job(job):
    summ = new_aggregate()
    seen = set()
    for plan in job['plans']:
        o = execute(plan)
        summ['runs'] += 1
        summ['calls'] += o['n_calls']
        summ['states'].update(o['states'])
        if plan['kind'] == 'pairs':
            summ['pair_sweeps'] += 1
        for k, v in o['probes'].items():
            summ['probes'][k] = summ['probes'].get(k, 0) + v
        for k, v in o['fault_counts'].items():
            summ['fault_counts'][k] = summ['fault_counts'].get(k, 0) + v
        if len(summ['samples']) < 1:
            summ['samples'].append({
                'kind': plan['kind'], 'cfg': plan['cfg'],
                'noise': plan['noise'], 'decoders': plan['decoders'],
                'ops': [[o_['op'], o_.get('dec'), o_.get('error')]
                        for o_ in plan.get('ops', [])][:8],
                'decode_calls': o['n_calls']})
        for v in o['violations']:
            key = canon(signature(plan, v))
            if key not in seen:
                seen.add(key)
                summ['violations'].append({'plan': plan, 'violation': v})
    summ['states'] = sorted(summ['states'])
    return summ


def determinism_plans(seed, n):
    return [gen_history(H(seed, PROP, 'det', i)) for i in range(n)]


def new_aggregate():
    return {'runs': 0, 'violations': [], 'states': set(), 'probes': {},
            'fault_counts': {}, 'calls': 0, 'samples': [], 'pair_sweeps': 0}


def aggregate(agg, r):
    for k in ('runs', 'calls', 'pair_sweeps'):
        agg[k] += r[k]
    agg['violations'] += r['violations']
    agg['states'].update(r['states'])
    for k, v in r['probes'].items():
        agg['probes'][k] = agg['probes'].get(k, 0) + v
    for k, v in r['fault_counts'].items():
        agg['fault_counts'][k] = agg['fault_counts'].get(k, 0) + v
    kinds = {s['kind'] for s in agg['samples']}
    for s in r['samples']:
        if s['kind'] not in kinds or len(agg['samples']) < 4:
            agg['samples'].append(s)
            kinds.add(s['kind'])


def signature(plan, v):
    d = v.get('detail') or {}
    sig = {'class': v['class'], 'decoder': d.get('decoder')}
    if v['class'] == 'history_dependent_outcome':
        sig['zero_syndrome'] = d.get('zero_syndrome')
    if v['class'] == 'history_dependent_validity':
        sig['reused'] = d.get('reused_decoder')
    return sig


def shrink(plan, want_sig, max_exec=200):
    if plan['kind'] == 'pairs':
        # turn the failing pair into a two-call history
        o = execute(plan)
        vs = [v for v in o['violations'] if signature(plan, v) == want_sig]
        if not vs:
            return plan, 1
        d = vs[0]['detail']
        code = make_code(plan['cfg'])
        ops = pair_ops(code, plan)
        call = d.get('call', 0)
        lo = max(0, call - 1)
        plan = {'property': PROP, 'kind': 'history', 'seed': plan['seed'],
                'cfg': plan['cfg'], 'noise': plan['noise'],
                'decoders': plan['decoders'], 'ops': ops[lo:call + 1]}
    best = copy.deepcopy(plan)
    n_exec = [0]

    def fails(p):
        if n_exec[0] >= max_exec:
            return False
        n_exec[0] += 1
        try:
            o = execute(p)
        except HarnessError:
            return False
        return any(signature(p, v) == want_sig for v in o['violations'])

    if not fails(best):
        return plan, n_exec[0]

    def candidates(p):
        ops = p['ops']
        if len(ops) > 3:
            h = len(ops) // 2
            for part in (ops[h:], ops[:h]):
                q = copy.deepcopy(p)
                q['ops'] = copy.deepcopy(part)
                yield q
        for i in range(len(ops)):
            q = copy.deepcopy(p)
            del q['ops'][i]
            yield q
        if len(p['decoders']) > 1:
            for i in range(len(p['decoders'])):
                q = copy.deepcopy(p)
                del q['decoders'][i]
                q['ops'] = [o for o in q['ops'] if o.get('dec') != i]
                for o in q['ops']:
                    if o.get('dec', -1) > i:
                        o['dec'] -= 1
                yield q
        for i, o in enumerate(ops):
            if o['op'] == 'decode':
                e = o['error']
                for j, c in enumerate(e):
                    if c != 'I':
                        q = copy.deepcopy(p)
                        q['ops'][i]['error'] = e[:j] + 'I' + e[j + 1:]
                        yield q

    improved = True
    while improved and n_exec[0] < max_exec:
        improved = False
        for q in candidates(best):
            if fails(q):
                best = q
                improved = True
                break
    return best, n_exec[0]


def evidence(tier, agg, wall):
    cov = {
        'evaluations': agg['calls'],
        'distinct_nontrivial': len(agg['states']),
        'rule': (
            'one evaluation = one decode call on a long-lived decoder inside '
            'a simulated run (seeded history of interleaved decode calls on '
            '1-3 decoders sharing code and noise objects, with cache '
            'evictions and gc; or the sweep of all ordered pairs of valid '
            'syndromes on a tiny code), compared with the memoised outcome '
            'of a freshly built decoder and with digests of the caller\'s '
            'syndrome buffer, the four cached probability arrays, the '
            'matching weights and H / Hx / Hz / logicals.  '
            'distinct_nontrivial = distinct (code configuration, decoder '
            'kinds in the pool, run kind, calls bucket) combinations'),
        'samples': agg['samples'] or [{'note': 'none'}],
        'simulated_runs': agg['runs'],
        'simulated_runs_per_hour': int(agg['runs'] / max(wall, 1e-9) * 3600),
        'all_ordered_pairs_sweeps': agg['pair_sweeps'],
        'decode_calls_checked': agg['calls'],
        'faults_fired': dict(sorted(agg['fault_counts'].items())),
        'reach_probes': dict(sorted(agg['probes'].items())),
        'real_vs_stub': {
            'real': ['MatchingDecoder (PyMatching)', 'UnionFindDecoder',
                     'BeliefPropagationOSDDecoder (ldpc), CSS and non-CSS '
                     'paths, channel_update on/off', 'XCubeMatchingDecoder',
                     'MemoryBeliefPropagationDecoder', 'codes incl. '
                     'deformed (non-CSS) objects', 'PauliErrorModel '
                     'probability_distribution / get_weights (lru_cache)'],
            'simulated': ['interleaving of the trial loops', 'lru_cache '
                          'eviction and gc points', 'OS entropy'],
        },
        'exhaustive': False,
    }
    assumptions = [
        'an exception that a fresh decoder raises as well is not a history '
        'effect (it belongs to C05) and is only counted',
        'sweep-match decoders are covered by the validity predicate of C10, '
        'not by fresh-decoder equality',
    ]
    return 'exploration', cov, assumptions
