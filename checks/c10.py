"""C10 - sweep decoders track the true residual syndrome.

The sweep decoder is a discrete-time cellular automaton with a private
tie-break PRNG.  It is run as a simulated system: every step (sweep_move) is
observed from outside and the tie-break generator is replaced by one the
seeded scheduler drives, so all three directions get explored instead of the
single sequence of the default seed.

* geometry (step-function refinement): for every edge of a lattice,
  flip_edge(edge, zeros) must toggle exactly the face rows of H that
  anticommute with Z on that edge;
* trajectories: decode() on exhaustive weight <= 2 Z errors (small lattices),
  seeded Z-only and full Pauli errors at several rates.  After every step the
  tracked excitation pattern must equal the GF(2)-reference face syndrome of
  (error + correction so far); the correction is Z-only; the returned vector
  is the BSF of the correction; and if no excitation is left the face
  syndrome of error + correction is zero.  An exception inside a step is a
  violation (the automaton may give up, it may not crash).
"""
import copy
import itertools
import sys

import numpy as np

from dst import kernel, seams, refmodel, runner
from dst.kernel import Sim, HarnessError, stream, canon, digest, H

PROP = 'C10'

FAMILIES = {
    'cubic': ['Toric3DCode', 'Planar3DCode'],
    'rotated': ['RotatedPlanar3DCode', 'RotatedToric3DCode'],
}


def make_code(name, size):
    import panqec.codes as pc
    return getattr(pc, name)(*size)


def make_decoder(kind, code, knobs=None):
    from panqec.decoders.sweepmatch._sweep_decoder_3d import SweepDecoder3D
    from panqec.decoders.sweepmatch._rotated_sweep_decoder import \
        RotatedSweepDecoder3D
    from panqec.error_models import PauliErrorModel
    noise = PauliErrorModel(0, 0, 1)
    knobs = knobs or {}
    if kind == 'cubic':
        return SweepDecoder3D(code, noise, 0.1, **knobs)
    return RotatedSweepDecoder3D(code, noise, 0.1, **knobs)


def drive_tiebreaks(dec, rng_obj):
    """Put the scheduler-driven generator in place of the decoder's private
    numpy Generator, whatever the attribute is called."""
    n = 0
    for name, val in list(vars(dec).items()):
        if isinstance(val, np.random.Generator):
            setattr(dec, name, rng_obj)
            n += 1
    if n == 0:
        dec._rng = rng_obj
    return n


class SchedRng:
    """Scheduler-driven stand-in for the decoder's private Generator: same
    `choice` signature and return types, the seeded stream decides."""

    def __init__(self, rng, sim):
        self.rng = rng
        self.sim = sim
        self.n = 0

    def choice(self, a, size=None, replace=True, p=None, axis=0,
               shuffle=True):
        self.n += 1
        self.sim.probe('tie_break_taken')
        a = list(a)
        if size is None:
            return np.int64(a[self.rng.randrange(len(a))])
        k = int(np.prod(size))
        return np.asarray([a[self.rng.randrange(len(a))]
                           for _ in range(k)]).reshape(size)


def z_rows(code):
    """Indices of the face stabilizers (the ones the automaton tracks)."""
    return [i for i, loc in enumerate(code.stabilizer_coordinates)
            if code.stabilizer_type(loc) == 'face']


# ---------------------------------------------------------------------------
# execution
# ---------------------------------------------------------------------------
def execute_here(plan, keep_events=False):
    sim = Sim(plan['seed'], keep_events=keep_events)
    violations = []
    states = set()
    stats = {'steps': 0, 'edges': 0, 'decodes': 0}

    def violate(cls, detail):
        d = {'decoder': plan['decoder'], 'code': plan['code']}
        d.update(detail)
        violations.append({'class': cls, 'detail': d})

    proc = sim.new_proc('automaton')
    kernel.set_current(proc)
    seams.install_entropy(plan['seed'])
    # a session = several lattices / decoders used one after the other in
    # one simulated process (what a size or code scan does)
    parts = plan['parts'] if plan['kind'] == 'session' else [plan]
    cur = {'part': parts[0]}
    _violate = violate

    def violate(cls, detail):     # noqa: F811
        d = {'decoder': cur['part']['decoder'], 'code': cur['part']['code']}
        d.update(detail)
        if plan['kind'] == 'session':
            d['session_part'] = parts.index(cur['part'])
        violations.append({'class': cls, 'detail': d})

    try:
        for part in parts:
            cur['part'] = part
            part = dict(part, seed=plan['seed'])
            try:
                code = make_code(part['code'], part['size'])
                _ = code.stabilizer_matrix
            except Exception as e:
                # a size outside the class's supported family: skipped
                sim.probe('unsupported_size_' + type(e).__name__)
                continue
            rc = refmodel.RefCode(code)
            faces = z_rows(code)
            # the decoder gets its OWN code object, which nothing but the
            # decoder touches: lazily built tables of the code class are
            # then first built inside the (possibly interrupted) decode
            dcode = make_code(part['code'], part['size'])
            part = dict(part, _dcode=dcode)
            if part['kind'] == 'other_object_deformed':
                try:
                    for nm_ in getattr(code, 'deformation_names', []):
                        code.deform(nm_)
                        _ = code.stabilizer_matrix, code.logicals_x
                    sim.probe('other_object_of_same_lattice_deformed_first')
                except Exception as e:
                    sim.probe('deform_raised_' + type(e).__name__)
                continue
            if part['kind'] == 'geometry':
                run_geometry(part, sim, code, rc, faces, violate, stats)
            elif part['kind'] == 'interleaved':
                run_interleaved(part, sim, code, rc, faces, violate, stats,
                                states)
            else:
                run_trajectories(part, sim, code, rc, faces, violate,
                                 stats, states)
    finally:
        seams.uninstall_entropy()
        kernel.set_current(None)
    return {
        'violations': violations,
        'fingerprint': sim.log.fingerprint(),
        'states': sorted(states),
        'fault_counts': sim.fault_counts,
        'probes': sim.probes,
        'stats': stats,
    }


def execute(plan, **kw):
    """One plan = one simulated process image: run in a forked child."""
    return runner.isolated(execute_here, plan, **kw)


def run_geometry(plan, sim, code, rc, faces, violate, stats):
    dec = make_decoder(plan['decoder'], plan.get('_dcode', code))
    m = len(code.stabilizer_coordinates)
    n = rc.n
    face_set = set(faces)
    bad = []
    for i, edge in enumerate(code.qubit_coordinates):
        signs = np.zeros(m, dtype=np.uint)
        try:
            dec.flip_edge(tuple(edge), signs)
        except Exception as e:
            bad.append([list(map(int, edge)), 'raised ' + type(e).__name__])
            continue
        stats['edges'] += 1
        zop = (0, 1 << i)
        want = {r for r in faces if refmodel.sprod(rc.stabs[r], zop)}
        got = {int(r) for r in np.nonzero(signs)[0]}
        if got != want:
            bad.append([list(map(int, edge)), sorted(got), sorted(want)])
    sim.log.add('geom', 'result', [len(bad), stats['edges']])
    if bad:
        violate('edge_geometry_mismatch', {
            'size': plan['size'], 'n_edges_wrong': len(bad),
            'n_edges': len(code.qubit_coordinates),
            'first': bad[0]})


class LineInterrupt:
    """Ctrl-C at the j-th traced line inside panqec/decoders/* or
    panqec/codes/* during one decode call."""

    PREFIX = (seams.REPO + 'decoders' + '/', seams.REPO + 'codes' + '/')

    def __init__(self, at):
        self.at = at
        self.n = 0
        self.first = {}     # code object -> index of its first traced line

    def _g(self, frame, event, arg):
        if frame.f_code.co_filename.startswith(self.PREFIX):
            return self._l
        return None

    def _l(self, frame, event, arg):
        if event == 'line':
            self.n += 1
            if self.at < 0:
                self.first.setdefault(frame.f_code, self.n)
            if self.n == self.at:
                raise _Interrupt()
        return self._l


class _Interrupt(KeyboardInterrupt):
    """Ctrl-C delivered between two sweeps (raised from the monitor)."""


def run_trajectories(plan, sim, code, rc, faces, violate, stats, states):
    n = rc.n
    m = len(code.stabilizer_coordinates)
    face_set = set(faces)
    trng = stream(plan['seed'], 'tiebreak')
    from panqec.bpauli import pauli_to_bsf
    reuse = bool(plan.get('reuse'))
    ki = plan.get('ki') or {}          # error index (str) -> step
    dec = None
    for ei, err in enumerate(plan['errors']):
        if dec is None or not reuse or (
                plan.get('new_decoder_each_time') and ei > 0):
            # (the code object is shared by all decodes of the plan)
            dec = make_decoder(plan['decoder'], plan.get('_dcode', code),
                               plan.get('knobs'))
            drive_tiebreaks(dec, SchedRng(trng, sim))
            real = dec.sweep_move
        elif ei > 0:
            sim.probe('decoder_reused_for_next_decode')
        e = refmodel.op_from_string(err)
        syndrome = code.measure_syndrome(pauli_to_bsf(err))
        state = {'step': 0, 'correction': None, 'signs': None, 'bad': None}
        ki_step = ki.get(str(ei))

        def monitored(signs, correction, *a, _real=real, _st=state,
                      _ki=ki_step, _e=e):
            new = _real(signs, correction, *a)
            _st['step'] += 1
            stats['steps'] += 1
            # snapshots: what the automaton holds *now* (a later reuse or
            # clearing of the same objects must not matter)
            _st['correction'] = dict(correction)
            _st['signs'] = np.array(new, copy=True)
            if _st['bad'] is None:
                _st['bad'] = step_invariant(code, rc, faces, face_set, _e,
                                            new, correction, n)
                if _st['bad'] is not None:
                    _st['bad']['step'] = _st['step']
                    _st['bad']['sweep_args'] = [list(x) if isinstance(
                        x, tuple) else x for x in a]
            if _ki is not None and _st['step'] == _ki:
                sim.count_fault('ki:between_sweeps')
                raise _Interrupt()
            return new

        dec.sweep_move = monitored
        interrupted = False
        li = None
        if (plan.get('ki_line') or {}).get(str(ei)) is not None:
            li = LineInterrupt(plan['ki_line'][str(ei)])
        elif ei == 0 and plan.get('ki_first_fraction') is not None:
            # anywhere in the first decode, which also builds the lazily
            # cached tables of the (so far untouched) code object: the
            # number of traced lines is counted on a separate fresh pair of
            # objects first, the interrupt lands at that fraction of it
            dry_code = make_code(plan['code'], plan['size'])
            dry = make_decoder(plan['decoder'], dry_code, plan.get('knobs'))
            drive_tiebreaks(dry, SchedRng(stream(plan['seed'], 'dry'), sim))
            cnt = LineInterrupt(-1)
            sys.settrace(cnt._g)
            try:
                try:
                    dry.decode(np.array(syndrome, copy=True))
                except Exception:
                    pass
            finally:
                sys.settrace(None)
            at = 1 + int(plan['ki_first_fraction'] * max(1, cnt.n - 1))
            if plan.get('ki_first_activation') is not None and cnt.first:
                # lazily built state is built during the *first activation*
                # of some function: aim a little after one of those
                firsts = sorted(cnt.first.values())
                f_sel, off = plan['ki_first_activation']
                rank = (f_sel if isinstance(f_sel, int)
                        else int(f_sel * len(firsts))) % len(firsts)
                at = min(cnt.n, firsts[rank] + off)
                sim.probe('interrupt_aimed_at_first_activation')
            li = LineInterrupt(at)
            sim.probe('first_decode_interrupted_at_fraction')
        try:
            if li is not None:
                sys.settrace(li._g)
            try:
                out = dec.decode(syndrome)
            finally:
                if li is not None:
                    sys.settrace(None)
        except _Interrupt:
            if li is not None and li.n >= li.at:
                sim.count_fault('ki:line_inside_decode')
            interrupted = True
            out = None
        except Exception as ex:
            violate('automaton_raised', {
                'size': plan['size'], 'exc': type(ex).__name__,
                'msg': str(ex)[:160], 'error': err,
                'step': state['step'], 'decode_index': ei})
            return
        stats['decodes'] += 1
        sim.log.add('traj', 'decode', [ei, digest(err), state['step'],
                                       digest(np.asarray(out).tolist())
                                       if out is not None else 'ki'])
        if state['bad'] is not None:
            b = state['bad']
            violate(b.pop('class'), dict(b, size=plan['size'], error=err,
                                         decode_index=ei))
            return
        if interrupted:
            sim.probe('decode_interrupted_then_decoder_reused')
            continue
        corr = state['correction'] or {}
        outv = [int(v) for v in np.asarray(out).ravel()]
        want = refmodel.bsf_list(
            refmodel.op_from_dict(corr, rc.qindex), n)
        if outv != want:
            violate('returned_vector_is_not_the_correction', {
                'size': plan['size'], 'error': err, 'decode_index': ei})
            return
        if any(outv[:n]):
            violate('correction_not_z_only', {'size': plan['size'],
                                              'error': err})
            return
        signs = state['signs']
        cleared = signs is None or not np.any(signs)
        if signs is None and any(
                rc.syndrome(e)[r] for r in faces):
            # decode returned without a single step although excitations
            # existed (max_sweeps = 0?): nothing to judge
            cleared = False
        if cleared:
            tot = refmodel.add(e, refmodel.op_from_bsf(outv, n))
            syn = rc.syndrome(tot)
            if any(syn[r] for r in faces):
                violate('stopped_clean_but_face_syndrome_left', {
                    'size': plan['size'], 'error': err,
                    'decode_index': ei})
                return
            sim.probe('automaton_cleared_all_excitations')
        else:
            sim.probe('automaton_gave_up')
        if state['step'] > 0:
            states.add(digest([plan['decoder'], plan['code'], plan['size'],
                               min(state['step'], 40),
                               min(len(corr), 12), cleared, reuse]))


SWEEP_DIRS = [(1, 0, 1), (1, 0, -1), (0, 1, 1), (0, 1, -1),
              (-1, 0, 1), (-1, 0, -1), (0, -1, 1), (0, -1, -1)]


def run_interleaved(plan, sim, code, rc, faces, violate, stats, states):
    """Two (or three) automaton runs stepped alternately on ONE decoder
    object through its public step interface (get_initial_state /
    sweep_move), the order decided by the seeded scheduler: after every step
    the state each run holds must still equal the face syndrome of its own
    error + its own correction."""
    from panqec.bpauli import pauli_to_bsf
    n = rc.n
    face_set = set(faces)
    dec = make_decoder(plan['decoder'], plan.get('_dcode', code),
                       plan.get('knobs'))
    drive_tiebreaks(dec, SchedRng(stream(plan['seed'], 'tiebreak'), sim))
    srng = stream(plan['seed'], 'interleave')
    runs = []
    allow_x = False
    for ri_, err in enumerate(plan['errors']):
        syn = code.measure_syndrome(pauli_to_bsf(err))
        corr = {}
        # the operator a caller accumulates may already hold the X part of
        # a correction (sweep-match applies matching and sweep to one
        # operator): X commutes with the face stabilizers, so the invariant
        # is unchanged, and a later flip of that edge must turn X into Y
        for qi in (plan.get('preseed_x') or {}).get(str(ri_), []):
            corr[tuple(code.qubit_coordinates[qi])] = 'X'
            allow_x = True
        runs.append({'err': err, 'e': refmodel.op_from_string(err),
                     'signs': dec.get_initial_state(syn), 'corr': corr,
                     'k': 0})
    if allow_x:
        sim.probe('stepping_with_preseeded_x_operator')
    for step in range(plan.get('steps', 12)):
        ri = srng.randrange(len(runs))
        r = runs[ri]
        args = ()
        if plan['decoder'] == 'rotated':
            args = (SWEEP_DIRS[r['k'] % len(SWEEP_DIRS)],)
        try:
            r['signs'] = dec.sweep_move(r['signs'], r['corr'], *args)
        except Exception as ex:
            violate('automaton_raised', {
                'size': plan['size'], 'exc': type(ex).__name__,
                'msg': str(ex)[:160], 'error': r['err'], 'step': step})
            return
        r['k'] += 1
        stats['steps'] += 1
        for qi, q in enumerate(runs):
            bad = step_invariant(code, rc, faces, face_set, q['e'],
                                 q['signs'], q['corr'], n,
                                 z_only=not allow_x)
            if bad is not None:
                violate(bad.pop('class'), dict(
                    bad, size=plan['size'], error=q['err'],
                    interleaved_step=step, run_just_stepped=ri,
                    run_checked=qi))
                return
    sim.probe('interleaved_runs_on_one_decoder')
    states.add(digest(['interleaved', plan['decoder'], plan['code'],
                       plan['size'], len(runs)]))


def step_invariant(code, rc, faces, face_set, e, signs, correction, n,
                   z_only=True):
    for loc, p in correction.items():
        if p != 'Z' and (z_only or p not in ('X', 'Y')):
            return {'class': 'correction_not_z_only', 'pauli': p}
        if tuple(loc) not in rc.qindex:
            return {'class': 'correction_on_non_qubit',
                    'location': list(map(int, loc))}
    c = refmodel.op_from_dict(correction, rc.qindex)
    tot = refmodel.add(e, c)
    syn = rc.syndrome(tot)
    tracked = [int(v) for v in np.asarray(signs).ravel()]
    if len(tracked) != len(syn):
        return {'class': 'tracked_state_wrong_length'}
    for r in range(len(syn)):
        if r in face_set:
            if tracked[r] != syn[r]:
                nbad = sum(1 for q in faces if tracked[q] != syn[q])
                return {'class': 'tracked_state_differs_from_residual',
                        'rows_wrong': nbad}
        elif tracked[r] != 0:
            return {'class': 'vertex_entry_set_in_tracked_state'}
    return None


# ---------------------------------------------------------------------------
# plans
# ---------------------------------------------------------------------------
def sizes_for(kind, tier):
    if kind == 'cubic':
        s = [[2, 2, 2], [3, 3, 3], [2, 3, 4], [3, 2, 2], [4, 3, 2],
             [3, 4, 3]]
        if tier == 'thorough':
            s += [[4, 4, 4], [2, 2, 5], [5, 3, 2], [3, 3, 4]]
        return s
    s = [[2, 2, 2], [3, 3, 3], [2, 3, 2], [3, 2, 3], [4, 4, 3], [2, 2, 3]]
    if tier == 'thorough':
        s += [[4, 4, 4], [3, 4, 2], [5, 5, 3], [4, 2, 3]]
    return s


def geometry_plans(tier, seed):
    out = []
    for kind, codes in FAMILIES.items():
        for cname in codes:
            for size in sizes_for(kind, tier):
                out.append({'property': PROP, 'kind': 'geometry',
                            'seed': H(seed, 'geo', cname, size),
                            'decoder': kind, 'code': cname, 'size': size})
    return out


def low_weight_errors(n, max_w):
    for w in range(1, max_w + 1):
        for supp in itertools.combinations(range(n), w):
            s = ['I'] * n
            for i in supp:
                s[i] = 'Z'
            yield ''.join(s)


def random_error(rng, n, rate, alphabet):
    return ''.join(rng.choice(alphabet) if rng.random() < rate else 'I'
                   for _ in range(n))


def trajectory_plans(tier, seed):
    out = []
    rng = stream(seed, 'traj')

    def add(kind, cname, size, errors, knobs=None, chunk=40):
        for i in range(0, len(errors), chunk):
            out.append({'property': PROP, 'kind': 'trajectory',
                        'seed': H(seed, 'traj', len(out)), 'decoder': kind,
                        'code': cname, 'size': size, 'knobs': knobs,
                        'errors': errors[i:i + chunk]})

    # exhaustive weight <= 2 Z errors on small lattices
    for cname, size in (('Toric3DCode', [2, 2, 2]),
                        ('Planar3DCode', [2, 2, 2])):
        n = make_code(cname, size).n
        add('cubic', cname, size, list(low_weight_errors(n, 2)))
    n = make_code('RotatedPlanar3DCode', [2, 2, 2]).n
    errs = list(low_weight_errors(n, 2))
    if tier == 'quick':
        rng.shuffle(errs)
        errs = errs[:60]
    add('rotated', 'RotatedPlanar3DCode', [2, 2, 2], errs,
        {'max_rounds': 4}, chunk=10)
    if tier == 'thorough':
        n = make_code('Toric3DCode', [3, 3, 3]).n
        add('cubic', 'Toric3DCode', [3, 3, 3],
            list(low_weight_errors(n, 2)), chunk=120)
    # seeded Z-only and full Pauli errors at several rates
    n_rand = 160 if tier == 'quick' else 8000
    for kind, codes in FAMILIES.items():
        for cname in codes:
            for size in sizes_for(kind, tier)[:4 if tier == 'quick'
                                             else None]:
                try:
                    n = make_code(cname, size).n
                except Exception:
                    continue
                errs = []
                k = n_rand if kind == 'cubic' else max(3, n_rand // 4)
                if kind == 'rotated' and max(size) > 3:
                    k = max(2, k // 3)
                for _ in range(k):
                    rate = rng.choice([0.02, 0.05, 0.1, 0.2, 0.3])
                    alpha = rng.choice(['Z', 'Z', 'XYZ'])
                    errs.append(random_error(rng, n, rate, alpha))
                knobs = None
                if kind == 'rotated':
                    knobs = {'max_rounds': rng.choice(
                        [1, 2, 4] if tier == 'quick' else [1, 2, 4, 32])}
                elif rng.random() < 0.3:
                    knobs = {'max_sweep_factor': rng.choice([1, 4])}
                add(kind, cname, size, errs, knobs,
                    chunk=6 if kind == 'cubic' else 2)
    # histories on ONE decoder object: several decodes in a row, some of
    # them interrupted (Ctrl-C between two sweeps) before the next one
    n_hist = 480 if tier == 'quick' else 6000
    for kind, codes in FAMILIES.items():
        for cname in codes:
            if cname == 'RotatedToric3DCode':
                continue      # known finding: would stop at the first step
            for size in sizes_for(kind, tier)[:3]:
                try:
                    n = make_code(cname, size).n
                except Exception:
                    continue
                for _ in range(max(1, n_hist // 12)):
                    k = rng.randint(3, 6)
                    errs = [random_error(rng, n, rng.choice(
                        [0.03, 0.08, 0.15, 0.25]), rng.choice(['Z', 'XYZ']))
                        for _ in range(k)]
                    if rng.random() < 0.3:
                        errs[rng.randrange(k)] = 'I' * n
                    ki = {}
                    ki_line = {}
                    for i in range(k - 1):
                        r_ = rng.random()
                        if r_ < 0.3:
                            ki[str(i)] = rng.randint(1, 4)
                        elif r_ < 0.6:
                            # anywhere inside decode, also in the code
                            # class's helpers it calls
                            ki_line[str(i)] = rng.choice(
                                [rng.randint(1, 30), rng.randint(1, 300),
                                 rng.randint(1, 3000)])
                    out.append({
                        'property': PROP, 'kind': 'trajectory',
                        'seed': H(seed, 'hist', len(out)), 'decoder': kind,
                        'code': cname, 'size': size, 'errors': errs,
                        'reuse': True, 'ki': ki, 'ki_line': ki_line,
                        'ki_first_fraction': (rng.random()
                                              if rng.random() < 0.6
                                              and '0' not in ki
                                              and '0' not in ki_line
                                              else None),
                        'ki_first_activation': (
                            [rng.random(), rng.randint(0, 60)]
                            if rng.random() < 0.7 else None),
                        'new_decoder_each_time': rng.random() < 0.3,
                        'knobs': ({'max_rounds': 2} if kind == 'rotated'
                                  else None)})
                    out.append({
                        'property': PROP, 'kind': 'interleaved',
                        'seed': H(seed, 'il', len(out)), 'decoder': kind,
                        'code': cname, 'size': size,
                        'errors': [random_error(rng, n, rng.choice(
                            [0.05, 0.12, 0.2]), 'Z')
                            for _ in range(rng.choice([2, 2, 3]))],
                        'steps': rng.randint(6, 16),
                        'preseed_x': ({'0': sorted(rng.sample(
                            range(n), min(n, rng.randint(2, 6))))}
                            if rng.random() < 0.4 else None),
                        'knobs': ({'max_rounds': 2} if kind == 'rotated'
                                  else None)})
    # fault enumeration over *first activations*: for every function that
    # is entered for the first time during the first decode on untouched
    # objects (that is where lazily built state is built), Ctrl-C a few
    # lines to a few thousand lines later; then three more decodes on the
    # same decoder and code object
    combos = [('rotated', 'RotatedPlanar3DCode', [3, 3, 3]),
              ('cubic', 'Toric3DCode', [2, 2, 2])]
    if tier == 'thorough':
        combos += [('rotated', 'RotatedPlanar3DCode', [2, 2, 2]),
                   ('cubic', 'Planar3DCode', [3, 3, 3]),
                   ('cubic', 'Toric3DCode', [3, 3, 3])]
    for kind, cname, size in combos:
        n = make_code(cname, size).n
        for rank in range(24):
            for off in (1, 7, 40, 150, 330, 480, 900, 2500):
                errs = [random_error(rng, n, rng.choice([0.1, 0.2]), 'Z')
                        for _ in range(4)]
                out.append({
                    'property': PROP, 'kind': 'trajectory',
                    'seed': H(seed, 'fa', len(out)), 'decoder': kind,
                    'code': cname, 'size': size, 'errors': errs,
                    'reuse': True, 'ki': {}, 'ki_line': {},
                    'ki_first_fraction': 0.5,
                    'ki_first_activation': [rank, off],
                    'knobs': ({'max_rounds': 2} if kind == 'rotated'
                              else None)})
    return out


def session_plans(tier, seed):
    """Lattices of different code classes but identical size, used one
    after the other by the same decoder class in one process, in both
    orders; geometry first, then a few trajectories."""
    out = []
    rng = stream(seed, 'session')
    for kind, codes in FAMILIES.items():
        for size in sizes_for(kind, tier)[:4 if tier == 'quick' else None]:
            for order in (codes, codes[::-1]):
                parts = []
                # another object of the same class and size is Clifford-
                # deformed and used first (a deformed-vs-undeformed study)
                for cname in order:
                    parts.append({'kind': 'other_object_deformed',
                                  'decoder': kind, 'code': cname,
                                  'size': size})
                for cname in order:
                    parts.append({'kind': 'geometry', 'decoder': kind,
                                  'code': cname, 'size': size})
                for cname in order:
                    try:
                        n = make_code(cname, size).n
                    except Exception:
                        continue
                    errs = [random_error(rng, n, rng.choice([0.05, 0.15]),
                                         'Z') for _ in range(
                                             3 if kind == 'cubic' else 1)]
                    parts.append({
                        'kind': 'trajectory', 'decoder': kind,
                        'code': cname, 'size': size, 'errors': errs,
                        'knobs': ({'max_rounds': 2} if kind == 'rotated'
                                  else None)})
                out.append({'property': PROP, 'kind': 'session',
                            'seed': H(seed, 'session', len(out)),
                            'decoder': kind, 'code': '+'.join(order),
                            'size': size, 'parts': parts})
    return out


# ---------------------------------------------------------------------------
# check interface
# ---------------------------------------------------------------------------
WALL_BUDGET = {'quick': 110, 'thorough': 1500}
JOB_TIMEOUT = 1500


def make_jobs(tier, seed):
    jobs = [{'plans': [p]} for p in trajectory_plans(tier, seed)]
    # slow (rotated, large) first so that the pool stays busy
    jobs.sort(key=lambda j: (j['plans'][0]['decoder'] != 'rotated',
                             -max(j['plans'][0]['size'])))
    jobs += [{'plans': [p]} for p in geometry_plans(tier, seed)]
    jobs += [{'plans': [p]} for p in session_plans(tier, seed)]
    return jobs


def run_job(job):
    summ = new_aggregate()
    seen = set()
    for plan in job['plans']:
        o = execute(plan)
        summ['runs'] += 1
        for k in ('steps', 'edges', 'decodes'):
            summ[k] += o['stats'][k]
        summ['states'].update(o['states'])
        if plan['kind'] in ('geometry', 'session'):
            summ['states'].add(digest([plan['kind'], plan['code'],
                                       plan['size']]))
            if plan['kind'] == 'session':
                summ['probes']['session_mixing_code_classes'] = \
                    summ['probes'].get('session_mixing_code_classes', 0) + 1
        for k, v in o['probes'].items():
            summ['probes'][k] = summ['probes'].get(k, 0) + v
        for k, v in o['fault_counts'].items():
            summ['fault_counts'][k] = summ['fault_counts'].get(k, 0) + v
        if not summ['samples']:
            s = {k: plan[k] for k in ('kind', 'decoder', 'code', 'size')}
            if plan['kind'] in ('trajectory', 'interleaved'):
                s['first_error'] = plan['errors'][0]
                s['n_errors'] = len(plan['errors'])
                s['knobs'] = plan.get('knobs')
                s['reuse'] = plan.get('reuse')
                s['ki'] = plan.get('ki')
            s['stats'] = o['stats']
            summ['samples'].append(s)
        for v in o['violations']:
            key = canon(signature(plan, v))
            if key not in seen:
                seen.add(key)
                summ['violations'].append({'plan': plan, 'violation': v})
    summ['states'] = sorted(summ['states'])
    return summ


def determinism_plans(seed, n):
    ps = [p for p in trajectory_plans('quick', seed)
          if p['decoder'] == 'cubic']
    r = stream(seed, 'det')
    r.shuffle(ps)
    return ps[:n]


def new_aggregate():
    return {'runs': 0, 'violations': [], 'states': set(), 'probes': {},
            'fault_counts': {}, 'steps': 0, 'edges': 0, 'decodes': 0,
            'samples': []}


def aggregate(agg, r):
    for k in ('runs', 'steps', 'edges', 'decodes'):
        agg[k] += r[k]
    agg['violations'] += r['violations']
    agg['states'].update(r['states'])
    for k, v in r['probes'].items():
        agg['probes'][k] = agg['probes'].get(k, 0) + v
    for k, v in r['fault_counts'].items():
        agg['fault_counts'][k] = agg['fault_counts'].get(k, 0) + v
    kinds = {(s['kind'], s['decoder']) for s in agg['samples']}
    for s in r['samples']:
        if (s['kind'], s['decoder']) not in kinds:
            agg['samples'].append(s)
            kinds.add((s['kind'], s['decoder']))


def signature(plan, v):
    d = v.get('detail') or {}
    sig = {'class': v['class'], 'decoder': d.get('decoder'),
           'code': d.get('code')}
    if 'exc' in d:
        sig['exc'] = d['exc']
    return sig


def shrink(plan, want_sig, max_exec=150):
    if plan['kind'] == 'session':
        # drop parts while the same violation persists
        best = copy.deepcopy(plan)
        n_exec = 0
        improved = True
        while improved and n_exec < max_exec and len(best['parts']) > 1:
            improved = False
            for i in range(len(best['parts']) - 1, -1, -1):
                q = copy.deepcopy(best)
                del q['parts'][i]
                n_exec += 1
                try:
                    o = execute(q)
                except HarnessError:
                    continue
                if any(signature(q, v) == want_sig
                       for v in o['violations']):
                    best = q
                    improved = True
                    break
        return best, n_exec
    if plan['kind'] != 'trajectory' or plan.get('reuse'):
        return plan, 0
    best = copy.deepcopy(plan)
    n_exec = [0]

    def fails(p):
        if n_exec[0] >= max_exec:
            return False
        n_exec[0] += 1
        try:
            o = execute(p)
        except HarnessError:
            return False
        return any(signature(p, v) == want_sig for v in o['violations'])

    # isolate the failing error first
    for i in range(len(best['errors'])):
        q = copy.deepcopy(best)
        q['errors'] = [best['errors'][i]]
        if fails(q):
            best = q
            break

    def candidates(p):
        e = p['errors'][0]
        for j, c in enumerate(e):
            if c != 'I':
                q = copy.deepcopy(p)
                q['errors'] = [e[:j] + 'I' + e[j + 1:]]
                yield q
        for j, c in enumerate(e):
            if c in 'XY':
                q = copy.deepcopy(p)
                q['errors'] = [e[:j] + 'Z' + e[j + 1:]]
                yield q

    improved = True
    while improved and n_exec[0] < max_exec:
        improved = False
        for q in candidates(best):
            if fails(q):
                best = q
                improved = True
                break
    return best, n_exec[0]


def evidence(tier, agg, wall):
    cov = {
        'evaluations': agg['steps'] + agg['edges'],
        'distinct_nontrivial': len(agg['states']),
        'rule': (
            'one evaluation = one observed automaton step (sweep_move under '
            'the monitor, invariant: tracked state == reference face '
            'syndrome of error + correction so far) or one edge of the '
            'geometry refinement (flip_edge on zeros vs the anticommuting '
            'face rows of H).  Trajectories: exhaustive weight<=2 Z errors '
            'on 2x2x2 lattices (sampled for the rotated decoder in quick), '
            'seeded Z-only and Pauli errors at rates 0.02-0.3 on cuboid '
            'lattices up to 4x4x3, tie-breaks decided by the seeded '
            'scheduler; histories of 3-6 decodes on one decoder object with '
            'Ctrl-C injected between two sweeps of some of them; two or '
            'three runs stepped alternately on one decoder through '
            'get_initial_state / sweep_move in a scheduler-chosen order.  distinct_nontrivial = distinct (decoder, code, '
            'size, steps bucket, correction size bucket, cleared?) '
            'trajectory classes plus (code, size) geometry sweeps'),
        'samples': agg['samples'] or [{'note': 'none'}],
        'simulated_runs': agg['decodes'],
        'simulated_runs_per_hour': int(agg['decodes'] / max(wall, 1e-9)
                                       * 3600),
        'automaton_steps_observed': agg['steps'],
        'edges_checked': agg['edges'],
        'decodes': agg['decodes'],
        'faults_fired': dict(sorted(agg['fault_counts'].items())),
        'reach_probes': dict(sorted(agg['probes'].items())),
        'real_vs_stub': {
            'real': ['SweepDecoder3D / RotatedSweepDecoder3D: decode, '
                     'sweep_move, flip_edge, get_default_direction, '
                     'get_initial_state', 'Toric3DCode, Planar3DCode, '
                     'RotatedPlanar3DCode, RotatedToric3DCode',
                     'StabilizerCode.site / to_bsf / measure_syndrome'],
            'simulated': ['the decoder\'s private tie-break Generator '
                          '(attribute _rng replaced by a scheduler-driven '
                          'object with the same choice() signature and '
                          'return types)', 'sweep_move observed through an '
                          'instance attribute wrapper'],
        },
        'exhaustive': False,
    }
    assumptions = [
        'face stabilizers are the stabilizers whose stabilizer_type is '
        "'face'; the reference syndrome is computed from get_stabilizer "
        'dictionaries',
        'a lattice size for which the code class itself cannot be built is '
        'outside the supported family (skipped, counted)',
    ]
    return 'exploration', cov, assumptions
